//! Oracles over single-builder runs: C01, C06, C07, C11 and the shared
//! checksum oracle C08-A(i). Each returns the first violated oracle id.

use crate::build::{
    expect_matches, expected_history, read_back, reference_build, show_expect,
    BuildCase, BuildRun,
};
use crate::front::{hex, Front, Item, Op, Res};
use crate::model::masked_crc32c;
use crate::sink::{ErrKind, EvKind};

#[derive(Clone, Debug, PartialEq, Eq)]
pub struct Violation {
    pub oracle: String,
    pub observed: String,
}

fn v(oracle: &str, observed: String) -> Option<Violation> {
    Some(Violation { oracle: oracle.to_string(), observed })
}

fn first_panic(run: &BuildRun) -> Option<(usize, String)> {
    run.results.iter().enumerate().find_map(|(i, r)| match r {
        // (a panic of the caller's own key source is the caller's, not the library's)
        Res::Panic(m) if !m.contains(crate::front::CALLER_PANIC) => Some((i, m.clone())),
        _ => None,
    })
}

fn show_items(items: &[Item]) -> String {
    let mut s = String::from("[");
    for (i, (k, v)) in items.iter().enumerate() {
        if i >= 6 {
            s.push_str(&format!("… {} entries", items.len()));
            break;
        }
        if i > 0 {
            s.push(' ');
        }
        s.push_str(&format!("{}={}", hex(k), v));
    }
    s.push(']');
    s
}

fn first_diff(a: &[u8], b: &[u8]) -> String {
    let n = std::cmp::min(a.len(), b.len());
    let p = (0..n).find(|&i| a[i] != b[i]).unwrap_or(n);
    let tail = |x: &[u8]| hex(&x[p..std::cmp::min(x.len(), p + 8)]);
    format!(
        "len {} vs {}; first difference at byte {}: {} vs {}",
        a.len(),
        b.len(),
        p,
        tail(a),
        tail(b)
    )
}

/// C08-A(i): the artifact's footer is the standard masked CRC-32C of the
/// rest, and verify() accepts it.
pub fn check_footer(pid: &str, bytes: &[u8]) -> Option<Violation> {
    if bytes.len() < 36 {
        return v(
            &format!("{}.A1.artifact_too_short", pid),
            format!("finished artifact has {} bytes", bytes.len()),
        );
    }
    let n = bytes.len();
    let stored = u32::from_le_bytes([
        bytes[n - 4],
        bytes[n - 3],
        bytes[n - 2],
        bytes[n - 1],
    ]);
    let want = masked_crc32c(&bytes[..n - 4]);
    if stored != want {
        return v(
            &format!("{}.A1.footer_is_not_masked_crc32c", pid),
            format!(
                "footer {:08x}, reference masked CRC-32C of the preceding {} bytes {:08x}",
                stored,
                n - 4,
                want
            ),
        );
    }
    None
}

/// Shared: finished artifact decodes to `want`, verifies, counts right.
fn check_content(pid: &str, bytes: &[u8], want: &[Item]) -> Option<Violation> {
    let rb = match read_back(bytes) {
        Ok(rb) => rb,
        Err(e) => {
            return v(&format!("{}.readback_failed", pid), e);
        }
    };
    if !rb.verify_ok {
        return v(
            &format!("{}.verify_rejects_fresh_build", pid),
            rb.verify_msg.clone(),
        );
    }
    if rb.items != want {
        return v(
            &format!("{}.content_differs_from_model", pid),
            format!(
                "stream gives {} want {}",
                show_items(&rb.items),
                show_items(want)
            ),
        );
    }
    if rb.len != want.len() || rb.is_empty != want.is_empty() {
        return v(
            &format!("{}.len_or_is_empty_wrong", pid),
            format!(
                "len()={} is_empty()={} for {} distinct keys",
                rb.len,
                rb.is_empty,
                want.len()
            ),
        );
    }
    None
}

/// C07: benign sink behaviour is invisible.
pub fn check_c07(case: &BuildCase, run: &BuildRun) -> Option<Violation> {
    if let Some((i, m)) = first_panic(run) {
        return v("C07.panic", format!("call {} panicked: {}", i, m));
    }
    // I1: byte counter == bytes accepted by the builder's writer, always
    for i in 0..run.bw_after.len() {
        if let Some(bw) = run.bw_after[i] {
            if bw != run.tap_after[i] {
                return v(
                    "C07.I1.bytes_written_differs_from_accepted",
                    format!(
                        "after call {}: bytes_written()={} but the sink accepted {}",
                        i, bw, run.tap_after[i]
                    ),
                );
            }
        }
    }
    if case.plan.fault_write.is_some() && run.sink.first_fault_event.is_some() {
        // a hard fault was injected on purpose: only the counter invariant
        // (checked above, after every call including the failed one) is
        // judged; the rest is C11's business
        return None;
    }
    if let Some((i, r)) =
        run.results.iter().enumerate().find(|(_, r)| !r.is_ok())
    {
        return v(
            "C07.call_failed_under_benign_sink",
            format!("call {} returned {}", i, r.show()),
        );
    }
    if !run.finish_reached {
        return v("C07.finish_not_reached", "task stopped early".into());
    }
    let (_, refb) = reference_build(&case.task);
    let refb = match refb {
        Some(b) => b,
        None => {
            return v(
                "C07.reference_build_failed",
                "Vec<u8> build of the same ops did not finish".into(),
            )
        }
    };
    let got = run.sink.payload();
    if got != &refb[..] {
        return v(
            "C07.I2.bytes_differ_from_memory_build",
            first_diff(got, &refb),
        );
    }
    // ... and they were all there when finish returned, not only after the
    // caller dropped its writer
    if run.durable_at_return != run.sink.durable.len() {
        return v(
            "C07.I2.bytes_missing_from_sink_when_finish_returned",
            format!(
                "finish returned Ok with {} of {} bytes in the sink; the rest only arrived when the writer was dropped",
                run.durable_at_return - run.sink.prefill,
                got.len()
            ),
        );
    }
    if run.sink.durable[..run.sink.prefill] != case.prefill[..] {
        return v(
            "C07.I2.prefill_disturbed",
            "bytes present before the build were changed".into(),
        );
    }
    if let Some(x) = check_footer("C07", got) {
        return Some(x);
    }
    let want = expected_history(&case.task).accepted;
    check_content("C07", got, &want)
}

/// C01: what the sink durably holds decodes to exactly what was accepted.
pub fn check_c01(case: &BuildCase, run: &BuildRun) -> Option<Violation> {
    if let Some((i, m)) = first_panic(run) {
        return v("C01.panic", format!("call {} panicked: {}", i, m));
    }
    if let Some((i, r)) =
        run.results.iter().enumerate().find(|(_, r)| !r.is_ok())
    {
        return v(
            "C01.legal_call_rejected",
            format!("call {} returned {}", i, r.show()),
        );
    }
    if !run.finish_reached {
        return v("C01.finish_not_reached", "task stopped early".into());
    }
    let got = run.sink.payload();
    let want = expected_history(&case.task).accepted;
    if let Some(x) = check_content("C01", got, &want) {
        return Some(x);
    }
    if let Some(x) = check_footer("C01", got) {
        return Some(x);
    }
    check_readers(case.task.front, got, &want)
}

/// The other public enumeration paths must agree with the model too.
pub fn check_readers(
    front: Front,
    bytes: &[u8],
    want: &[Item],
) -> Option<Violation> {
    use fst::{IntoStreamer, Streamer};
    use std::panic::{catch_unwind, AssertUnwindSafe};
    let r = catch_unwind(AssertUnwindSafe(|| -> Option<Violation> {
        let wk: Vec<Vec<u8>> = want.iter().map(|x| x.0.clone()).collect();
        let wv: Vec<u64> = want.iter().map(|x| x.1).collect();
        if front != Front::Set {
            let m = match fst::Map::new(bytes) {
                Ok(m) => m,
                Err(e) => return v("C01.map_open_failed", format!("{:?}", e)),
            };
            if m.stream().into_byte_vec() != want {
                return v(
                    "C01.map_into_byte_vec_differs",
                    "Map::stream().into_byte_vec()".into(),
                );
            }
            let mut ks = Vec::new();
            let mut s = m.keys();
            while let Some(k) = s.next() {
                ks.push(k.to_vec());
            }
            if ks != wk {
                return v("C01.map_keys_differs", "Map::keys()".into());
            }
            let mut vs = Vec::new();
            let mut s = m.values();
            while let Some(x) = s.next() {
                vs.push(x);
            }
            if vs != wv {
                return v("C01.map_values_differs", "Map::values()".into());
            }
            if m.stream().into_byte_keys() != wk {
                return v("C01.map_into_byte_keys_differs", "".into());
            }
            if m.stream().into_values() != wv {
                return v("C01.map_into_values_differs", "".into());
            }
            if m.len() != want.len() || m.is_empty() != want.is_empty() {
                return v("C01.map_len_wrong", format!("{}", m.len()));
            }
            let mut it = (&m).into_stream();
            let mut n = 0;
            while let Some((k, x)) = it.next() {
                if n >= want.len() || k != &want[n].0[..] || x != want[n].1 {
                    return v("C01.map_ref_stream_differs", "".into());
                }
                n += 1;
            }
            if n != want.len() {
                return v("C01.map_ref_stream_short", "".into());
            }
        } else {
            let s = match fst::Set::new(bytes) {
                Ok(s) => s,
                Err(e) => return v("C01.set_open_failed", format!("{:?}", e)),
            };
            if s.stream().into_bytes() != wk {
                return v("C01.set_into_bytes_differs", "".into());
            }
            if s.len() != want.len() || s.is_empty() != want.is_empty() {
                return v("C01.set_len_wrong", format!("{}", s.len()));
            }
            let mut it = s.stream();
            let mut n = 0;
            while let Some(k) = it.next() {
                if n >= wk.len() || k != &wk[n][..] {
                    return v("C01.set_stream_differs", "".into());
                }
                n += 1;
            }
            if n != wk.len() {
                return v("C01.set_stream_short", "".into());
            }
        }
        None
    }));
    match r {
        Ok(x) => x,
        Err(p) => v("C01.reader_panicked", crate::front::panic_msg(p)),
    }
}

/// C06: call history vs the ordering contract, observed with the sink.
pub fn check_c06(case: &BuildCase, run: &BuildRun) -> Option<Violation> {
    if let Some((i, m)) = first_panic(run) {
        return v("C06.panic", format!("call {} panicked: {}", i, m));
    }
    if !run.results[0].is_ok() {
        return v(
            "C06.constructor_failed",
            format!("constructor returned {}", run.results[0].show()),
        );
    }
    let exp = expected_history(&case.task);
    let nops = case.task.ops.len();
    if run.results.len() != nops + 2 || !run.finish_reached {
        return v(
            "C06.history_cut_short",
            format!(
                "{} results for {} ops (+constructor, +finish)",
                run.results.len(),
                nops
            ),
        );
    }
    for i in 0..nops {
        let got = &run.results[i + 1];
        // H1: variant and payload
        if !expect_matches(&exp.results[i], got) {
            return v(
                "C06.H1.result_differs_from_contract",
                format!(
                    "op {} ({}) returned {} but the contract says {}",
                    i,
                    show_op(&case.task.ops[i]),
                    got.show(),
                    show_expect(&exp.results[i])
                ),
            );
        }
        // H5: bulk calls stop pulling at the rejected item
        if let (Some(want), Some(got)) = (exp.pulled[i], run.pulled[i]) {
            if want != got {
                return v(
                    "C06.H5.bulk_call_consumed_wrong_count",
                    format!(
                        "op {} pulled {} items from its source, contract says {}",
                        i, got, want
                    ),
                );
            }
        }
        // H2: a rejected call leaves no trace at the sink
        let rejected = !got.is_ok();
        let first_item_rejected = match exp.pulled[i] {
            None => true,
            Some(n) => n == 1,
        };
        if rejected && first_item_rejected {
            let c = i + 1;
            if run.tap_calls_after[c] != run.tap_calls_after[c - 1] || run.tap_after[c] != run.tap_after[c - 1] {
                return v(
                    "C06.H2.rejected_call_wrote_to_sink",
                    format!(
                        "op {} was rejected yet caused {} write calls on its writer",
                        i,
                        run.tap_calls_after[c] - run.tap_calls_after[c - 1]
                    ),
                );
            }
            if run.bw_after[c] != run.bw_after[c - 1] {
                return v(
                    "C06.H2.rejected_call_changed_bytes_written",
                    format!(
                        "bytes_written {:?} -> {:?}",
                        run.bw_after[c - 1],
                        run.bw_after[c]
                    ),
                );
            }
        }
    }
    let fin = run.results.last().unwrap();
    if !fin.is_ok() {
        return v(
            "C06.finish_failed",
            format!("finish returned {}", fin.show()),
        );
    }
    // H4: as if the rejected calls never happened
    let got = run.sink.payload();
    if let Some(x) = check_content("C06.H4", got, &exp.accepted) {
        return Some(x);
    }
    let clean_ops: Vec<Op> = exp
        .accepted
        .iter()
        .map(|(k, val)| {
            if case.task.front == Front::Raw && *val == 0 && was_added(case, k) {
                Op::Add(k.clone())
            } else {
                Op::Ins(k.clone(), *val)
            }
        })
        .collect();
    let mut clean = case.task.clone();
    clean.ops = clean_ops;
    let (_, refb) = reference_build(&clean);
    match refb {
        None => v(
            "C06.H4.clean_rebuild_failed",
            "building exactly the accepted sequence failed".into(),
        ),
        Some(refb) => {
            if got != &refb[..] {
                v(
                    "C06.H4.bytes_differ_from_clean_rebuild",
                    first_diff(got, &refb),
                )
            } else {
                None
            }
        }
    }
}

fn was_added(case: &BuildCase, key: &[u8]) -> bool {
    case.task.ops.iter().any(|op| matches!(op, Op::Add(k) if &k[..] == key))
}

pub fn show_op(op: &Op) -> String {
    match op {
        Op::Ins(k, val) => format!("insert({},{})", hex(k), val),
        Op::Add(k) => format!("add({})", hex(k)),
        Op::ExtIter(it) => format!("extend_iter({} items)", it.len()),
        Op::ExtStream(it, via) => {
            format!("extend_stream({} items via {})", it.len(), via.name())
        }
    }
}

/// C11: a hard fault surfaces as Err(Io(kind)) from the call in progress.
///
/// `dry` is the same case executed without the injected fault.
pub fn check_c11(
    _case: &BuildCase,
    run: &BuildRun,
    dry: &BuildRun,
) -> Option<Violation> {
    // O1: no panic
    if let Some((i, m)) = first_panic(run) {
        return v("C11.O1.panic", format!("call {} panicked: {}", i, m));
    }
    let fault_ev = run.sink.first_fault_event;
    let fault_kind = run.sink.first_fault_kind;
    match (fault_ev, fault_kind) {
        (Some(fe), Some(kind)) if fe < run.ev_at_return => {
            // which public call was in progress?
            let call = run.sink.first_fault_op.unwrap() as usize;
            let got = match run.results.get(call) {
                Some(r) => r,
                None => {
                    return v(
                        "C11.harness.fault_attribution",
                        format!("fault in call {} but no such result", call),
                    )
                }
            };
            // O2: that call returns Err(Io(kind))
            match got {
                Res::Io(k) if *k == kind.io_kind() => {}
                other => {
                    return v(
                        "C11.O2.fault_not_surfaced_as_io_error",
                        format!(
                            "sink failed with {} during call {} which returned {}",
                            kind.name(),
                            call,
                            other.show()
                        ),
                    )
                }
            }
            // O3: earlier calls unaffected
            for i in 0..call {
                if run.results[i] != dry.results[i] {
                    return v(
                        "C11.O3.earlier_call_changed",
                        format!(
                            "call {} returned {} (fault-free run: {})",
                            i,
                            run.results[i].show(),
                            dry.results[i].show()
                        ),
                    );
                }
            }
            // the well-behaved caller stopped: nothing may be reported after
            if run.results.len() != call + 1 {
                return v(
                    "C11.harness.caller_continued",
                    "calls were issued after the I/O error".into(),
                );
            }
            None
        }
        _ => {
            // no fault reached the builder: must equal the fault-free run
            if run.results != dry.results {
                return v(
                    "C11.O3.results_differ_without_fault",
                    "no fault fired but results differ".into(),
                );
            }
            check_c11_finish(run, dry)
        }
    }
}

/// O4: "finished" implies every byte accepted and flushed.
pub fn check_c11_finish(run: &BuildRun, dry: &BuildRun) -> Option<Violation> {
    if let Some(Res::Ok) = run.finish_result() {
        // the file must have seen a successful flush after its last write
        let upto = run.ev_at_return as usize;
        let evs = &run.sink.log[..std::cmp::min(upto, run.sink.log.len())];
        let last_write = evs
            .iter()
            .rposition(|e| e.kind == EvKind::Write && e.outcome > 0);
        let last_flush =
            evs.iter().rposition(|e| e.kind == EvKind::Flush && e.outcome == 0);
        let flushed = match (last_write, last_flush) {
            (Some(w), Some(f)) => f > w,
            (None, Some(_)) => true,
            _ => false,
        };
        if !flushed {
            return v(
                "C11.O4.finished_without_flush",
                "finish returned Ok but the sink saw no successful flush after its last write".into(),
            );
        }
        if run.sink.payload() != dry.sink.payload() {
            return v(
                "C11.O4.finished_but_bytes_incomplete",
                first_diff(run.sink.payload(), dry.sink.payload()),
            );
        }
    }
    None
}

pub fn kind_of_zero() -> ErrKind {
    ErrKind::WriteZero
}
