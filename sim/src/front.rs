//! Builder tasks: the simulated client driving the REAL builders one public
//! call at a time, so a scheduler can interleave several of them and a sink
//! can be inspected between calls.

use std::cell::Cell;
use std::io::{self, Write};
use std::panic::{catch_unwind, AssertUnwindSafe};
use std::rc::Rc;

use fst::raw;
use fst::{IntoStreamer, MapBuilder, SetBuilder, Streamer};

use crate::sink::ErrKind;

#[derive(Clone, Copy, Debug, PartialEq, Eq, Hash)]
pub enum Front {
    Raw,
    Set,
    Map,
}

impl Front {
    pub fn name(self) -> &'static str {
        match self {
            Front::Raw => "raw::Builder",
            Front::Set => "SetBuilder",
            Front::Map => "MapBuilder",
        }
    }
    pub fn from_name(s: &str) -> Option<Front> {
        Some(match s {
            "raw::Builder" => Front::Raw,
            "SetBuilder" => Front::Set,
            "MapBuilder" => Front::Map,
            _ => return None,
        })
    }
}

#[derive(Clone, Copy, Debug, PartialEq, Eq, Hash)]
pub enum Via {
    /// a harness `Streamer` over a vector, counting what was pulled
    Vec,
    /// the stream of a real in-memory FST built from the items
    Fst,
    /// a `range()` stream of a real FST that contains the items plus
    /// sentinels outside the bounds
    Range,
    /// the union of 2..4 real FSTs that partition the items
    Union,
}

impl Via {
    pub fn name(self) -> &'static str {
        match self {
            Via::Vec => "vec",
            Via::Fst => "fst",
            Via::Range => "range",
            Via::Union => "union",
        }
    }
    pub fn from_name(s: &str) -> Option<Via> {
        Some(match s {
            "vec" => Via::Vec,
            "fst" => Via::Fst,
            "range" => Via::Range,
            "union" => Via::Union,
            _ => return None,
        })
    }
}

pub type Item = (Vec<u8>, u64);

/// An item with this key is never handed to the builder: the harness
/// iterator / stream PANICS when asked for it (a caller-supplied source that
/// panics; the caller catches the panic and goes on using the builder).
pub const PANIC_KEY: &[u8] = b"\xff\xfesim: the source panics here\xfe\xff";
pub const CALLER_PANIC: &str = "sim: the caller's key source panics inside next()";

#[derive(Clone, Debug, PartialEq, Eq)]
pub enum Op {
    /// map/raw: `insert(k, v)`; set: `insert(k)`
    Ins(Vec<u8>, u64),
    /// raw only: `add(k)`
    Add(Vec<u8>),
    ExtIter(Vec<Item>),
    ExtStream(Vec<Item>, Via),
}

impl Op {
    pub fn n_items(&self) -> usize {
        match self {
            Op::Ins(..) | Op::Add(..) => 1,
            Op::ExtIter(v) | Op::ExtStream(v, _) => v.len(),
        }
    }
}

#[derive(Clone, Copy, Debug, PartialEq, Eq)]
pub enum Fin {
    Finish,
    IntoInner,
    /// the caller drops the builder without finishing it (only used for
    /// disturber tasks whose output nobody looks at)
    Abandon,
}

#[derive(Clone, Debug, PartialEq, Eq)]
pub struct TaskSpec {
    pub front: Front,
    /// node cache geometry via the hook; None = shipped default
    pub registry: Option<(usize, usize)>,
    pub ops: Vec<Op>,
    pub fin: Fin,
}

/// Result of one public builder call as the caller sees it.
#[derive(Clone, Debug, PartialEq, Eq)]
pub enum Res {
    Ok,
    Dup(Vec<u8>),
    Ooo(Vec<u8>, Vec<u8>),
    Io(io::ErrorKind),
    OtherErr(String),
    Panic(String),
}

impl Res {
    pub fn is_ok(&self) -> bool {
        matches!(self, Res::Ok)
    }
    pub fn is_io(&self) -> bool {
        matches!(self, Res::Io(_))
    }
    pub fn show(&self) -> String {
        match self {
            Res::Ok => "Ok".into(),
            Res::Dup(k) => format!("Err(DuplicateKey{{got:{}}})", hex(k)),
            Res::Ooo(p, g) => {
                format!("Err(OutOfOrder{{previous:{},got:{}}})", hex(p), hex(g))
            }
            Res::Io(k) => format!("Err(Io({:?}))", k),
            Res::OtherErr(s) => format!("Err({})", s),
            Res::Panic(s) => format!("PANIC({})", s),
        }
    }
    pub fn code(&self) -> u64 {
        match self {
            Res::Ok => 0,
            Res::Dup(_) => 1,
            Res::Ooo(..) => 2,
            Res::Io(k) => {
                10 + ErrKind::of_io(*k).map(|k| k as u64).unwrap_or(99)
            }
            Res::OtherErr(_) => 3,
            Res::Panic(_) => 4,
        }
    }
}

pub fn hex(b: &[u8]) -> String {
    let mut s = String::with_capacity(b.len() * 2);
    for &x in b {
        s.push_str(&format!("{:02x}", x));
    }
    s
}

pub fn unhex(s: &str) -> Option<Vec<u8>> {
    if s.len() % 2 != 0 {
        return None;
    }
    let b = s.as_bytes();
    let mut out = Vec::with_capacity(s.len() / 2);
    for i in (0..b.len()).step_by(2) {
        let h = (b[i] as char).to_digit(16)?;
        let l = (b[i + 1] as char).to_digit(16)?;
        out.push((h * 16 + l) as u8);
    }
    Some(out)
}

fn res_of(r: Result<fst::Result<()>, Box<dyn std::any::Any + Send>>) -> Res {
    match r {
        Err(p) => Res::Panic(panic_msg(p)),
        Ok(Ok(())) => Res::Ok,
        Ok(Err(e)) => res_of_err(e),
    }
}

pub fn res_of_err(e: fst::Error) -> Res {
    match e {
        fst::Error::Io(e) => Res::Io(e.kind()),
        fst::Error::Fst(raw::Error::DuplicateKey { got }) => Res::Dup(got),
        fst::Error::Fst(raw::Error::OutOfOrder { previous, got }) => {
            Res::Ooo(previous, got)
        }
        fst::Error::Fst(e) => Res::OtherErr(format!("{:?}", e)),
    }
}

pub fn panic_msg(p: Box<dyn std::any::Any + Send>) -> String {
    if let Some(s) = p.downcast_ref::<&str>() {
        s.to_string()
    } else if let Some(s) = p.downcast_ref::<String>() {
        s.clone()
    } else {
        "<non-string panic>".to_string()
    }
}

/// Silence the default panic printer (panics are caught and judged).
pub fn install_quiet_panic_hook() {
    // VERIF_LOUD_PANICS=1 keeps the default printer (debugging the harness)
    if std::env::var("VERIF_LOUD_PANICS").is_ok() {
        return;
    }
    std::panic::set_hook(Box::new(|_| {}));
}

/// A harness stream over a vector of items that counts what was pulled.
pub struct VecStream {
    items: Vec<Item>,
    pos: usize,
    pulled: Rc<Cell<usize>>,
}

impl<'a> Streamer<'a> for VecStream {
    type Item = (&'a [u8], u64);
    fn next(&'a mut self) -> Option<(&'a [u8], u64)> {
        if self.pos >= self.items.len() {
            return None;
        }
        let i = self.pos;
        self.pos += 1;
        self.pulled.set(self.pulled.get() + 1);
        if self.items[i].0 == PANIC_KEY {
            panic!("{}", CALLER_PANIC);
        }
        Some((&self.items[i].0[..], self.items[i].1))
    }
}

pub struct VecKeyStream(VecStream);
impl<'a> Streamer<'a> for VecKeyStream {
    type Item = &'a [u8];
    fn next(&'a mut self) -> Option<&'a [u8]> {
        self.0.next().map(|(k, _)| k)
    }
}

pub struct VecOutStream(VecStream);
impl<'a> Streamer<'a> for VecOutStream {
    type Item = (&'a [u8], raw::Output);
    fn next(&'a mut self) -> Option<(&'a [u8], raw::Output)> {
        self.0.next().map(|(k, v)| (k, raw::Output::new(v)))
    }
}

struct CountIter<I> {
    it: I,
    pulled: Rc<Cell<usize>>,
}
impl<I: Iterator> Iterator for CountIter<I> {
    type Item = I::Item;
    fn next(&mut self) -> Option<I::Item> {
        let x = self.it.next();
        if x.is_some() {
            self.pulled.set(self.pulled.get() + 1);
        }
        x
    }
}

/// CountIter over items: panics instead of yielding the PANIC_KEY item.
struct PanickyIter<I> {
    it: CountIter<I>,
}
impl<I: Iterator<Item = Item>> Iterator for PanickyIter<I> {
    type Item = Item;
    fn next(&mut self) -> Option<Item> {
        match self.it.next() {
            Some((k, _)) if k == PANIC_KEY => panic!("{}", CALLER_PANIC),
            x => x,
        }
    }
}

pub enum AnyBuilder<W: Write> {
    Raw(raw::Builder<W>),
    Set(SetBuilder<W>),
    Map(MapBuilder<W>),
}

fn strictly_sorted(items: &[Item]) -> bool {
    items.windows(2).all(|w| w[0].0 < w[1].0)
}

impl<W: Write> AnyBuilder<W> {
    pub fn create(
        front: Front,
        w: W,
        registry: Option<(usize, usize)>,
    ) -> Result<AnyBuilder<W>, fst::Error> {
        Ok(match front {
            Front::Raw => {
                let mut b = raw::Builder::new(w)?;
                if let Some((r, c)) = registry {
                    b.verif_set_registry(r, c);
                }
                AnyBuilder::Raw(b)
            }
            Front::Set => {
                let mut b = SetBuilder::new(w)?;
                if let Some((r, c)) = registry {
                    b.verif_set_registry(r, c);
                }
                AnyBuilder::Set(b)
            }
            Front::Map => {
                let mut b = MapBuilder::new(w)?;
                if let Some((r, c)) = registry {
                    b.verif_set_registry(r, c);
                }
                AnyBuilder::Map(b)
            }
        })
    }

    pub fn bytes_written(&self) -> u64 {
        match self {
            AnyBuilder::Raw(b) => b.bytes_written(),
            AnyBuilder::Set(b) => b.bytes_written(),
            AnyBuilder::Map(b) => b.bytes_written(),
        }
    }

    /// One public call. Returns the result and, for bulk calls over a
    /// counting source, how many items were pulled from it.
    pub fn apply(&mut self, op: &Op) -> (fst::Result<()>, Option<usize>) {
        match op {
            Op::Ins(k, v) => (
                match self {
                    AnyBuilder::Raw(b) => b.insert(k, *v),
                    AnyBuilder::Set(b) => b.insert(k),
                    AnyBuilder::Map(b) => b.insert(k, *v),
                },
                None,
            ),
            Op::Add(k) => (
                match self {
                    AnyBuilder::Raw(b) => b.add(k),
                    AnyBuilder::Set(b) => b.insert(k),
                    // a map builder has no add(); treat as insert(k, 0)
                    AnyBuilder::Map(b) => b.insert(k, 0),
                },
                None,
            ),
            Op::ExtIter(items) => {
                let pulled = Rc::new(Cell::new(0));
                let it = PanickyIter {
                    it: CountIter { it: items.iter().cloned(), pulled: pulled.clone() },
                };
                let r = match self {
                    AnyBuilder::Raw(b) => b.extend_iter(
                        it.map(|(k, v)| (k, raw::Output::new(v))),
                    ),
                    AnyBuilder::Set(b) => b.extend_iter(it.map(|(k, _)| k)),
                    AnyBuilder::Map(b) => b.extend_iter(it),
                };
                (r, Some(pulled.get()))
            }
            Op::ExtStream(items, via) => self.extend_stream(items, *via),
        }
    }

    fn extend_stream(
        &mut self,
        items: &[Item],
        via: Via,
    ) -> (fst::Result<()>, Option<usize>) {
        // Real-FST sources need a legal (strictly increasing) item list; an
        // illegal one can only be offered through the harness stream.
        let via = if via != Via::Vec && !strictly_sorted(items) {
            Via::Vec
        } else {
            via
        };
        match via {
            Via::Vec => {
                let pulled = Rc::new(Cell::new(0));
                let vs = VecStream {
                    items: items.to_vec(),
                    pos: 0,
                    pulled: pulled.clone(),
                };
                let r = match self {
                    AnyBuilder::Raw(b) => b.extend_stream(VecOutStream(vs)),
                    AnyBuilder::Set(b) => b.extend_stream(VecKeyStream(vs)),
                    AnyBuilder::Map(b) => b.extend_stream(vs),
                };
                (r, Some(pulled.get()))
            }
            Via::Fst => {
                let src = raw::Fst::from_iter_map(items.iter().cloned())
                    .expect("harness: source fst");
                let r = match self {
                    AnyBuilder::Raw(b) => b.extend_stream(src.stream()),
                    AnyBuilder::Set(b) => {
                        let set = fst::Set::from(src);
                        b.extend_stream(set.stream())
                    }
                    AnyBuilder::Map(b) => {
                        let map = fst::Map::from(src);
                        b.extend_stream(map.stream())
                    }
                };
                (r, None)
            }
            Via::Range => {
                if items.is_empty() {
                    return self.extend_stream(items, Via::Fst);
                }
                // sentinels strictly outside [first, last]
                let first = items[0].0.clone();
                let last = items[items.len() - 1].0.clone();
                let mut all: Vec<Item> = Vec::with_capacity(items.len() + 2);
                if !first.is_empty() {
                    // the empty key is smaller than every non-empty key
                    all.push((vec![], 77));
                }
                all.extend(items.iter().cloned());
                let mut hi = last.clone();
                hi.push(0);
                all.push((hi, 99));
                let src = raw::Fst::from_iter_map(all.into_iter())
                    .expect("harness: range source fst");
                let r = match self {
                    AnyBuilder::Raw(b) => b.extend_stream(
                        src.range().ge(&first).le(&last).into_stream(),
                    ),
                    AnyBuilder::Set(b) => {
                        let set = fst::Set::from(src);
                        b.extend_stream(
                            set.range().ge(&first).le(&last).into_stream(),
                        )
                    }
                    AnyBuilder::Map(b) => {
                        let map = fst::Map::from(src);
                        b.extend_stream(
                            map.range().ge(&first).le(&last).into_stream(),
                        )
                    }
                };
                (r, None)
            }
            Via::Union => {
                // partition into parts by a fixed rule of the item index
                let nparts = 2 + (items.len() % 3);
                let mut parts: Vec<Vec<Item>> = vec![vec![]; nparts];
                for (i, it) in items.iter().enumerate() {
                    parts[(i * 7 + i / 3) % nparts].push(it.clone());
                }
                let fsts: Vec<raw::Fst<Vec<u8>>> = parts
                    .into_iter()
                    .map(|p| {
                        raw::Fst::from_iter_map(p.into_iter())
                            .expect("harness: part fst")
                    })
                    .collect();
                let r = match self {
                    AnyBuilder::Set(b) => {
                        let sets: Vec<fst::Set<Vec<u8>>> =
                            fsts.into_iter().map(fst::Set::from).collect();
                        let mut ob = fst::set::OpBuilder::new();
                        for s in &sets {
                            ob.push(s);
                        }
                        b.extend_stream(ob.union())
                    }
                    AnyBuilder::Raw(b) => {
                        // the documented merge recipe: loop over the union
                        let mut u =
                            fsts.iter().collect::<raw::OpBuilder>().union();
                        let mut r = Ok(());
                        while let Some((k, vs)) = u.next() {
                            if let Err(e) = b.insert(k, vs[0].value) {
                                r = Err(e);
                                break;
                            }
                        }
                        r
                    }
                    AnyBuilder::Map(b) => {
                        let maps: Vec<fst::Map<Vec<u8>>> =
                            fsts.into_iter().map(fst::Map::from).collect();
                        let mut ob = fst::map::OpBuilder::new();
                        for m in &maps {
                            ob.push(m);
                        }
                        let mut u = ob.union();
                        let mut r = Ok(());
                        while let Some((k, vs)) = u.next() {
                            if let Err(e) = b.insert(k, vs[0].value) {
                                r = Err(e);
                                break;
                            }
                        }
                        r
                    }
                };
                (r, None)
            }
        }
    }

    pub fn finish(self, fin: Fin) -> (fst::Result<()>, Option<W>) {
        match fin {
            Fin::Finish => (
                match self {
                    AnyBuilder::Raw(b) => b.finish(),
                    AnyBuilder::Set(b) => b.finish(),
                    AnyBuilder::Map(b) => b.finish(),
                },
                None,
            ),
            Fin::Abandon => {
                drop(self);
                (Ok(()), None)
            }
            Fin::IntoInner => {
                let r = match self {
                    AnyBuilder::Raw(b) => b.into_inner(),
                    AnyBuilder::Set(b) => b.into_inner(),
                    AnyBuilder::Map(b) => b.into_inner(),
                };
                match r {
                    Ok(w) => (Ok(()), Some(w)),
                    Err(e) => (Err(e), None),
                }
            }
        }
    }
}

/// A builder task: `start` is the constructor call, each `step` one more
/// public call, the last one being finish / into_inner.
pub struct Task<W: Write> {
    pub b: Option<AnyBuilder<W>>,
    pub spec: TaskSpec,
    pub pc: usize,
    /// results[0] = constructor, then one per op, then finish
    pub results: Vec<Res>,
    /// per op: items pulled from a counting source
    pub pulled: Vec<Option<usize>>,
    pub done: bool,
    pub out: Option<W>,
    /// stop issuing calls at the first Io error or panic
    pub stop_on_io: bool,
    /// stop at the first error of any kind (a caller using `?`)
    pub stop_on_any_err: bool,
    /// bytes_written() of the builder right after the call that made the
    /// caller abandon it
    pub bw_at_abandon: Option<u64>,
}

impl<W: Write> Task<W> {
    pub fn start(w: W, spec: TaskSpec) -> Task<W> {
        let front = spec.front;
        let registry = spec.registry;
        let r = catch_unwind(AssertUnwindSafe(|| {
            AnyBuilder::create(front, w, registry)
        }));
        let (b, res) = match r {
            Err(p) => (None, Res::Panic(panic_msg(p))),
            Ok(Ok(b)) => (Some(b), Res::Ok),
            Ok(Err(e)) => (None, res_of_err(e)),
        };
        let done = b.is_none();
        Task {
            b,
            spec,
            pc: 0,
            results: vec![res],
            pulled: vec![],
            done,
            out: None,
            stop_on_io: true,
            stop_on_any_err: false,
            bw_at_abandon: None,
        }
    }

    pub fn bytes_written(&self) -> Option<u64> {
        match &self.b {
            Some(b) => Some(b.bytes_written()),
            None => self.bw_at_abandon,
        }
    }

    /// Index of the call the next `step` will make (0 = constructor done).
    pub fn next_call_index(&self) -> usize {
        self.results.len()
    }

    pub fn is_finish_next(&self) -> bool {
        !self.done && self.pc >= self.spec.ops.len()
    }

    /// Execute the next public call. Returns None when nothing is left.
    pub fn step(&mut self) -> Option<Res> {
        if self.done {
            return None;
        }
        if self.pc < self.spec.ops.len() {
            let op = &self.spec.ops[self.pc];
            self.pc += 1;
            let b = self.b.as_mut().unwrap();
            let mut pulled = None;
            let r = catch_unwind(AssertUnwindSafe(|| {
                let (r, p) = b.apply(op);
                pulled = p;
                r
            }));
            let res = res_of(r);
            self.pulled.push(pulled);
            self.results.push(res.clone());
            // a panic raised by the caller's own key source (not by the
            // library) is caught by the caller, who goes on using the builder
            let injected = matches!(&res, Res::Panic(m) if m.contains(CALLER_PANIC));
            let stop = match &res {
                Res::Ok => false,
                Res::Panic(_) if injected => false,
                Res::Io(_) | Res::Panic(_) => self.stop_on_io,
                _ => self.stop_on_any_err,
            };
            if (matches!(res, Res::Panic(_)) && !injected) || stop {
                // a poisoned or failed builder is abandoned by the caller
                self.done = true;
                if !matches!(res, Res::Panic(_)) {
                    let bw = catch_unwind(AssertUnwindSafe(|| self.b.as_ref().map(|b| b.bytes_written())));
                    self.bw_at_abandon = bw.ok().flatten();
                }
                let b = self.b.take();
                let _ = catch_unwind(AssertUnwindSafe(move || drop(b)));
            }
            Some(res)
        } else {
            let b = self.b.take().unwrap();
            let fin = self.spec.fin;
            let mut out = None;
            let r = catch_unwind(AssertUnwindSafe(|| {
                let (r, w) = b.finish(fin);
                out = w;
                r
            }));
            let res = res_of(r);
            self.out = out;
            self.results.push(res.clone());
            self.done = true;
            Some(res)
        }
    }
}
