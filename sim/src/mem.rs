//! C13 / C14: resource scenarios under the counting allocator.

use std::panic::{catch_unwind, AssertUnwindSafe};
use std::rc::Rc;

use fst::automaton::{Automaton, Levenshtein, Str, Subsequence};
use fst::{IntoStreamer, Streamer};

use crate::alloc;
use crate::front::{panic_msg, AnyBuilder, Fin, Front};
use crate::oracle::Violation;
use crate::rng::{mix, Digest, Rng};
use crate::sink::{Decider, Plan, Shape, SinkState, Tap};

fn viol(o: &str, s: String) -> Option<Violation> {
    Some(Violation { oracle: o.to_string(), observed: s })
}

/// Deterministic key family: a fixed-width counter in base F (so keys are
/// strictly increasing and fan-out is <= F) followed by PRNG letters (so
/// almost every suffix node is new and cannot be shared).
#[derive(Clone, Copy, Debug, PartialEq, Eq)]
pub struct KeyFamily {
    pub n: u64,
    pub fanout: u32,
    pub keylen: u32,
    pub seed: u64,
    /// keys come in pairs (k, k + one letter): every other key is a proper
    /// prefix of its successor, so final nodes keep getting transitions
    pub pairs: bool,
    /// > 0: "leaf fans" — consecutive groups of `leaf_fan` keys share a
    /// counter prefix and differ in one last byte drawn from a per-prefix
    /// subset, so every prefix ends in a *distinct* node with `leaf_fan`
    /// transitions (an unbounded number of distinct wide nodes)
    pub leaf_fan: u32,
    /// values strictly decrease with the key (outputs keep being pushed down)
    pub decreasing: bool,
    /// every key occurs `repeat` times in a row (only meaningful for sets,
    /// where a repeated key is a legal no-op); n counts occurrences
    pub repeat: u32,
    /// > 0: the stream comes in *sections*. Inside a section the same
    /// vocabulary of `sec_vocab` tails (keys of this family, seeded by the
    /// section) is repeated under `sec_parents` different parent letters, so
    /// every tail node is compiled once and then found in the node cache
    /// again and again; the next section brings a new vocabulary that pushes
    /// those often-found nodes out of the cache.
    pub sec_vocab: u32,
    pub sec_parents: u32,
}

impl KeyFamily {
    /// Longest key of the family (for the bound).
    pub fn max_key_len(&self) -> u32 {
        if self.sec_vocab > 0 {
            let per = self.sec_vocab as u64 * self.sec_parents as u64;
            let secs = KeyFamily { sec_vocab: 0, sec_parents: 0, fanout: 26, n: self.n / per + 1, ..*self };
            return secs.digits() + 1 + self.keylen + 1;
        }
        self.keylen + 1
    }
    pub fn digits(&self) -> u32 {
        let f = self.fanout as u64;
        let mut d = 1;
        let mut cap = f;
        let n = if self.pairs { self.n / 2 + 1 } else { self.n };
        while cap < n {
            cap = cap.saturating_mul(f);
            d += 1;
        }
        d
    }
    #[inline]
    fn letter(&self, x: u64) -> u8 {
        if self.fanout <= 26 {
            b'a' + x as u8
        } else {
            x as u8
        }
    }
    /// Write key `i` into `buf` (reusing its capacity).
    pub fn key_into(&self, i: u64, buf: &mut Vec<u8>) {
        if self.sec_vocab > 0 {
            let v = self.sec_vocab as u64;
            let per = v * self.sec_parents as u64;
            let (s, p, t) = (i / per, (i % per) / v, i % v);
            let secs = KeyFamily { sec_vocab: 0, sec_parents: 0, pairs: false, leaf_fan: 0, repeat: 1, fanout: 26, n: self.n / per + 1, ..*self };
            let d = secs.digits();
            secs.key_into_plain(s, buf, d);
            buf.truncate(d as usize);
            buf.push(b'A' + p as u8);
            let tail = KeyFamily { sec_vocab: 0, sec_parents: 0, pairs: false, leaf_fan: 0, repeat: 1, n: v, seed: mix(self.seed, 0x5ec7, s), ..*self };
            tail.append_plain(t, buf, tail.digits());
            return;
        }
        if self.repeat > 1 {
            let base = KeyFamily { repeat: 1, n: self.n / self.repeat as u64 + 1, ..*self };
            return base.key_into(i / self.repeat as u64, buf);
        }
        if self.leaf_fan > 0 {
            let fan = self.leaf_fan as u64;
            let base = KeyFamily { leaf_fan: 0, pairs: false, n: self.n / fan + 1, fanout: 26, ..*self };
            let p = i / fan;
            let j = i % fan;
            base.key_into_plain(p, buf, base.digits());
            // a window of fan+1 consecutive byte values with one hole
            let h = mix(self.seed, 0x1eaf, p);
            let start = h % (256 - fan);
            let hole = (h >> 16) % (fan + 1);
            let b = start + j + if j >= hole { 1 } else { 0 };
            buf.push(b as u8);
            return;
        }
        if self.pairs {
            let base = KeyFamily { pairs: false, n: self.n / 2 + 1, ..*self };
            base.key_into_plain(i / 2, buf, self.digits());
            if i % 2 == 1 {
                buf.push(self.letter(0));
            }
            return;
        }
        self.key_into_plain(i, buf, self.digits());
    }

    fn key_into_plain(&self, i: u64, buf: &mut Vec<u8>, d: u32) {
        buf.clear();
        self.append_plain(i, buf, d);
    }

    fn append_plain(&self, i: u64, buf: &mut Vec<u8>, d: u32) {
        let start = buf.len();
        let f = self.fanout as u64;
        let mut div = 1u64;
        for _ in 1..d {
            div *= f;
        }
        let mut rem = i;
        for _ in 0..d {
            let q = rem / div;
            rem %= div;
            buf.push(self.letter(q));
            div = std::cmp::max(1, div / f);
        }
        let mut r = Rng::new(mix(self.seed, 0x6b65, i));
        let mut bits = 0u64;
        let mut have = 0;
        while ((buf.len() - start) as u32) < self.keylen {
            if have == 0 {
                bits = r.next_u64();
                have = 8;
            }
            buf.push(self.letter((bits & 0xff) % f));
            bits >>= 8;
            have -= 1;
        }
    }
    pub fn value(&self, i: u64) -> u64 {
        if self.sec_vocab > 0 {
            // the same tail has the same value under every parent
            let v = self.sec_vocab as u64;
            let per = v * self.sec_parents as u64;
            return mix(self.seed, 0x76, (i / per) * v + i % v) & 0xffff;
        }
        if self.decreasing {
            return (1u64 << 40) - i;
        }
        mix(self.seed, 0x76, i) & 0xffff_ffff
    }
}

#[derive(Clone, Debug, PartialEq, Eq)]
pub struct MemBuildCase {
    pub fam: KeyFamily,
    pub map: bool,
    pub registry: Option<(usize, usize)>,
    pub bufcap: Option<usize>,
    /// checkpoint interval (inserts)
    pub every: u64,
    /// acceptance behaviour of the discarding sink
    pub shape: Shape,
    /// feed all keys through ONE bulk call instead of an insert loop:
    /// `extend_iter` over a slice (exact size hint), or `extend_stream`
    /// from the stream of a source FST built beforehand
    pub bulk: bool,
    pub bulk_stream: bool,
    /// insert loop only: after every accepted key, this many inserts that the
    /// builder must refuse (a smaller key; for maps also the same key again).
    /// A refused insert leaves no trace, so it must not leave memory behind
    /// either.
    pub rejects: u32,
    /// insert loop only: half way through, ONE uninterrupted run of this many
    /// inserts that the builder must refuse (the first keys of the family
    /// once more: a second sorted input fed behind the first one by a caller
    /// that skips the refusals)
    pub reject_run: u64,
    /// 2 = the builder (streaming to io::sink()) is handed back and forth
    /// between two long-lived threads, one insert each: thread 0 inserts the
    /// long key of a pair (pushes nodes), thread 1 the short one (pops them).
    /// A builder is Send; where its memory lives must not depend on which
    /// thread happens to drive it. 1 = one thread (everything else).
    pub threads: u8,
    /// insert loop only, before the first key of the family: bit 0 = the
    /// empty key is inserted first; bit 1 = the first 1000 keys arrive through
    /// ONE extend_iter call whose last item must be refused (the call returns
    /// an error half-way; the caller goes on with single inserts)
    pub prologue: u8,
}

#[derive(Clone, Debug)]
pub struct MemBuildRun {
    pub bound: i64,
    pub after_new: i64,
    pub max_live: i64,
    pub live_at_tenth: i64,
    pub live_at_end: i64,
    pub checkpoints: u64,
    pub bytes_emitted: u64,
    pub allocs: u64,
    /// legal inserts the builder refused (not a memory matter: the run goes
    /// on, C06 / C01 judge that) and whether the run ended early because the
    /// builder reported an I/O error on a sink that injects none
    pub refused: u64,
    pub cut_short: bool,
    pub violation: Option<Violation>,
    pub digest: u64,
}

/// The bound of DESIGN §C13, relative to what the constructor itself
/// allocated (`after_new`, measured): the node cache may grow every cell's
/// transition vector to at most 2F entries of 24 bytes, the unfinished stack
/// holds one node per key byte, `last` holds one key; plus 256 KiB of slack.
/// Taking the constructor's own allocation as the base keeps the bound valid
/// if the shipped cache geometry or the size of a cache cell changes; for
/// the shipped geometry the number of cells is estimated from it (48 bytes
/// per cell on a 64-bit target; a larger cell only loosens the bound).
pub fn build_bound(registry: Option<(usize, usize)>, fanout: u32, keylen: u32, after_new: i64) -> i64 {
    let cells = match registry {
        Some((rows, cols)) => (rows * cols) as i64,
        // (not below the shipped 10 000 x 2: a constructor that takes over a
        // table parked by an earlier builder of the thread allocates nothing)
        None => std::cmp::max(20_000, after_new / 48),
    };
    let per_vec = 24 * std::cmp::max(4, 2 * fanout as i64);
    let l = keylen as i64;
    after_new + cells * per_vec + (l + 2) * (64 + per_vec) + 4 * l + 256 * 1024
}

enum PingPongBuilder {
    Map(fst::MapBuilder<std::io::Sink>),
    Set(fst::SetBuilder<std::io::Sink>),
}

impl PingPongBuilder {
    fn insert(&mut self, k: &[u8], v: u64) -> bool {
        match self {
            PingPongBuilder::Map(b) => b.insert(k, v).is_ok(),
            PingPongBuilder::Set(b) => b.insert(k).is_ok(),
        }
    }
    fn bytes_written(&self) -> u64 {
        match self {
            PingPongBuilder::Map(b) => b.bytes_written(),
            PingPongBuilder::Set(b) => b.bytes_written(),
        }
    }
}

/// `threads == 2`: see MemBuildCase::threads. Live heap is the sum over both
/// threads (memory allocated on one and freed on the other counts once).
fn run_mem_pingpong(case: &MemBuildCase) -> MemBuildRun {
    use std::sync::mpsc::channel;
    let fam = case.fam;
    let pairs = fam.n / 2;
    let tail = fam.keylen as usize;
    let digits = KeyFamily { pairs: false, leaf_fan: 0, repeat: 1, sec_vocab: 0, sec_parents: 0, n: pairs + 1, fanout: 26, ..fam }.digits();
    let mut run = MemBuildRun {
        bound: 0,
        after_new: 0,
        max_live: 0,
        live_at_tenth: 0,
        live_at_end: 0,
        checkpoints: 0,
        bytes_emitted: 0,
        allocs: 0,
        refused: 0,
        cut_short: false,
        violation: None,
        digest: 0,
    };
    let key_of = move |j: u64, long: bool, buf: &mut Vec<u8>| {
        buf.clear();
        let mut div = 1u64;
        for _ in 1..digits {
            div *= 26;
        }
        let mut rem = j;
        for _ in 0..digits {
            buf.push(b'a' + (rem / div) as u8);
            rem %= div;
            div = std::cmp::max(1, div / 26);
        }
        if long {
            let mut x = mix(fam.seed, 0x9109, j);
            for _ in 0..tail {
                buf.push(b'a' + (x % 20) as u8);
                x = (x / 20).wrapping_add(x.wrapping_shl(7)) ^ 0x9e37;
            }
        } else {
            buf.push(b'z');
        }
    };
    // (builder, live heap of the sending thread relative to its own baseline)
    let (to1, from0) = channel::<Option<(PingPongBuilder, i64)>>();
    let (to0, from1) = channel::<(PingPongBuilder, i64)>();
    let map = case.map;
    let t1 = std::thread::spawn(move || {
        let mut key: Vec<u8> = Vec::with_capacity(256);
        let base = alloc::live();
        let mut j = 0u64;
        while let Ok(Some((mut b, _))) = from0.recv() {
            key_of(j, false, &mut key);
            let _ = b.insert(&key, j * 2 + 1);
            j += 1;
            if to0.send((b, alloc::live() - base)).is_err() {
                break;
            }
        }
    });
    let r = catch_unwind(AssertUnwindSafe(|| -> Option<Violation> {
        let mut key: Vec<u8> = Vec::with_capacity(256);
        let base = alloc::live();
        let mut b = if map {
            PingPongBuilder::Map(fst::MapBuilder::new(std::io::sink()).ok()?)
        } else {
            PingPongBuilder::Set(fst::SetBuilder::new(std::io::sink()).ok()?)
        };
        run.after_new = alloc::live() - base;
        let bound = build_bound(None, 26, digits + tail as u32 + 1, run.after_new);
        run.bound = bound;
        for j in 0..pairs {
            key_of(j, true, &mut key);
            if !b.insert(&key, j * 2) {
                run.refused += 1;
            }
            if to1.send(Some((b, 0))).is_err() {
                run.cut_short = true;
                return None;
            }
            let (b2, live1) = match from1.recv() {
                Ok(x) => x,
                Err(_) => {
                    run.cut_short = true;
                    return None;
                }
            };
            b = b2;
            if (j + 1) % case.every == 0 || j + 1 == pairs {
                let live = (alloc::live() - base) + live1;
                run.checkpoints += 1;
                if live > run.max_live {
                    run.max_live = live;
                }
                if j + 1 <= std::cmp::max(case.every, pairs / 10) {
                    run.live_at_tenth = live;
                }
                run.live_at_end = live;
                if live > bound {
                    return viol(
                        "C13.live_heap_exceeds_bound",
                        format!(
                            "builder handed back and forth between two threads, after {} key pairs ({} bytes emitted): {} B live in both threads together > bound {} B",
                            j + 1,
                            b.bytes_written(),
                            live,
                            bound
                        ),
                    );
                }
            }
        }
        run.bytes_emitted = b.bytes_written();
        None
    }));
    let _ = to1.send(None);
    drop(to1);
    let _ = t1.join();
    run.violation = match r {
        Ok(v) => v,
        Err(p) => viol("C13.panic", panic_msg(p)),
    };
    let mut d = Digest::new();
    d.u64(run.max_live as u64);
    d.u64(run.live_at_end as u64);
    d.u64(run.bytes_emitted);
    d.u64(run.refused);
    run.digest = d.finish();
    run
}

pub fn run_mem_build(case: &MemBuildCase) -> MemBuildRun {
    if case.threads == 2 {
        return run_mem_pingpong(case);
    }
    let fam = case.fam;
    let mut sink = SinkState::new(
        Plan::clean(),
        Decider::Random { shape: case.shape, rng: Rng::new(fam.seed ^ 0x51) },
        &[],
    );
    sink.discard = true;
    sink.keep_log = false;
    sink.record = false;
    let sink = sink.handle();
    let (tap, _tap_st) = Tap::new(sink.clone(), case.bufcap);
    let mut key: Vec<u8> = Vec::with_capacity(fam.keylen as usize + 8);
    // prologue bits 2 and 3: the raw builder, whose `insert` (with an output)
    // and `add` (without) may be mixed on one object
    let front = if case.prologue & 12 != 0 { Front::Raw } else if case.map { Front::Map } else { Front::Set };
    let mut run = MemBuildRun {
        bound: 0,
        after_new: 0,
        max_live: 0,
        live_at_tenth: 0,
        live_at_end: 0,
        checkpoints: 0,
        bytes_emitted: 0,
        allocs: 0,
        refused: 0,
        cut_short: false,
        violation: None,
        digest: 0,
    };
    let bulk_items: Vec<(Vec<u8>, u64)> = if case.bulk {
        (0..fam.n)
            .map(|i| {
                fam.key_into(i, &mut key);
                (key.clone(), fam.value(i))
            })
            .collect()
    } else {
        Vec::new()
    };
    // source FST for the extend_stream mode (harness memory, before baseline)
    let bulk_src: Option<Vec<u8>> = if case.bulk && case.bulk_stream {
        let mut sb = fst::MapBuilder::memory();
        let mut prev: Option<&Vec<u8>> = None;
        for (k, v) in &bulk_items {
            if prev != Some(k) {
                sb.insert(k, if case.map { *v } else { 0 }).expect("harness: source fst");
            }
            prev = Some(k);
        }
        Some(sb.into_inner().expect("harness: source fst"))
    } else {
        None
    };
    let base = alloc::mark();
    let r = catch_unwind(AssertUnwindSafe(|| -> Option<Violation> {
        let mut b = match AnyBuilder::create(front, tap, case.registry) {
            Ok(b) => b,
            Err(_) => {
                run.cut_short = true;
                return None;
            }
        };
        run.after_new = alloc::live() - base.live;
        // prologue bit 4: two keys far longer than all others arrive late
        // (half way and at three quarters); the bound is the one for that length
        let late_long: u32 = if case.prologue & 16 != 0 { 320 } else { 0 };
        let bound = build_bound(case.registry, std::cmp::max(fam.fanout, fam.leaf_fan), fam.max_key_len() + late_long, run.after_new);
        run.bound = bound;
        if case.bulk {
            // the slice is harness memory allocated before the baseline; the
            // builder sees one extend_iter call whose iterator reports the
            // exact number of items
            let mut over: Option<(u64, i64)> = None;
            let mut cnt = 0u64;
            let every = case.every;
            let base_live = base.live;
            let it = bulk_items.iter().inspect(|_| {
                cnt += 1;
                if cnt % every == 0 {
                    let live = alloc::live() - base_live;
                    run.checkpoints += 1;
                    if live > run.max_live {
                        run.max_live = live;
                    }
                    if live > bound && over.is_none() {
                        over = Some((cnt, live));
                    }
                }
            });
            let r = if case.bulk_stream {
                drop(it);
                // peak held heap during the one extend_stream call
                alloc::reset_peak();
                let src = bulk_src.as_ref().expect("harness: source fst");
                let r = match &mut b {
                    AnyBuilder::Map(m) => m.extend_stream(fst::Map::new(&src[..]).expect("harness: src").stream()),
                    AnyBuilder::Set(s) => s.extend_stream(fst::Set::new(&src[..]).expect("harness: src").stream()),
                    AnyBuilder::Raw(r) => r.extend_stream(fst::raw::Fst::new(&src[..]).expect("harness: src").stream()),
                };
                let peak = alloc::peak() - base_live;
                run.checkpoints += 1;
                if peak > run.max_live {
                    run.max_live = peak;
                }
                if peak > bound {
                    over = Some((fam.n, peak));
                }
                r
            } else {
                match &mut b {
                    AnyBuilder::Map(m) => m.extend_iter(it.map(|(k, v)| (k, *v))),
                    AnyBuilder::Set(s) => s.extend_iter(it.map(|(k, _)| k)),
                    AnyBuilder::Raw(r) => r.extend_iter(it.map(|(k, v)| (k, fst::raw::Output::new(*v)))),
                }
            };
            if r.is_err() {
                run.cut_short = true;
            }
            run.live_at_end = alloc::live() - base.live;
            if let Some((i, live)) = over {
                return viol(
                    "C13.live_heap_exceeds_bound",
                    format!(
                        "inside one bulk call (extend_iter / extend_stream) over {} items, after {} of them: {} B held > bound {} B (cache {:?})",
                        fam.n, i, live, bound, case.registry.unwrap_or((10_000, 2))
                    ),
                );
            }
        }
        let mut first = 0u64;
        if !case.bulk && case.prologue & 1 != 0 {
            let _ = match &mut b {
                AnyBuilder::Map(m) => m.insert(b"", 1),
                AnyBuilder::Set(s) => s.insert(b""),
                AnyBuilder::Raw(r) => r.add(b""),
            };
        }
        if !case.bulk && case.prologue & 2 != 0 && fam.n > 2000 {
            first = 1000;
            let mut items: Vec<(Vec<u8>, u64)> = (0..first)
                .map(|i| {
                    fam.key_into(i, &mut key);
                    (key.clone(), fam.value(i))
                })
                .collect();
            // the last item repeats the first one: refused (smaller than its predecessor)
            items.push(items[0].clone());
            let r = match &mut b {
                AnyBuilder::Map(m) => m.extend_iter(items.iter().map(|(k, v)| (k, *v))),
                AnyBuilder::Set(s) => s.extend_iter(items.iter().map(|(k, _)| k)),
                AnyBuilder::Raw(r) => r.extend_iter(items.iter().map(|(k, v)| (k, fst::raw::Output::new(*v)))),
            };
            if r.is_ok() {
                run.refused += 1; // (the refusal itself is C06's business)
            }
            drop(items);
        }
        for i in first..(if case.bulk { 0 } else { fam.n }) {
            fam.key_into(i, &mut key);
            let r = match &mut b {
                AnyBuilder::Map(m) => m.insert(&key, fam.value(i)),
                AnyBuilder::Set(s) => s.insert(&key),
                // bit 2: ONE valued key (a header row), then adds only;
                // bit 3: the first half with outputs, the second half without
                AnyBuilder::Raw(r) if (case.prologue & 4 != 0 && i == first) || (case.prologue & 8 != 0 && i < fam.n / 2) => {
                    r.insert(&key, fam.value(i) | 1)
                }
                AnyBuilder::Raw(r) => r.add(&key),
            };
            match r {
                Ok(()) => {}
                Err(fst::Error::Io(_)) => {
                    run.cut_short = true;
                    break;
                }
                Err(_) => run.refused += 1,
            }
            for j in 0..case.rejects {
                // a smaller key (the key with its last byte lowered, or a
                // proper prefix), or for maps the same key again
                let n = key.len();
                let same = case.map && j % 2 == 1;
                let saved = key[n - 1];
                if !same {
                    if saved > 0 {
                        key[n - 1] = saved - 1;
                    } else {
                        key.truncate(n - 1);
                    }
                }
                let r = match &mut b {
                    AnyBuilder::Map(m) => m.insert(&key, 7),
                    AnyBuilder::Set(s) => s.insert(&key),
                    AnyBuilder::Raw(r) => r.add(&key),
                };
                if !same {
                    if saved > 0 {
                        key[n - 1] = saved;
                    } else {
                        key.push(saved);
                    }
                }
                // (whether it really was refused is C06's business)
                let _ = r;
            }
            if late_long > 0 && !case.bulk && (i == fam.n / 2 || i == fam.n / 4 * 3) {
                // the current key followed by 200 / 300 NUL bytes: greater than
                // the current key, smaller than the next one
                let n = key.len();
                key.resize(n + if i == fam.n / 2 { 200 } else { 300 }, 0);
                let r = match &mut b {
                    AnyBuilder::Map(m) => m.insert(&key, 3),
                    AnyBuilder::Set(s) => s.insert(&key),
                    AnyBuilder::Raw(r) => r.add(&key),
                };
                key.truncate(n);
                if r.is_err() {
                    run.refused += 1;
                }
            }
            if case.reject_run > 0 && i == fam.n / 2 {
                let mut k2: Vec<u8> = Vec::with_capacity(key.capacity());
                for j in 0..std::cmp::min(case.reject_run, i) {
                    fam.key_into(j, &mut k2);
                    let _ = match &mut b {
                        AnyBuilder::Map(m) => m.insert(&k2, 7),
                        AnyBuilder::Set(s) => s.insert(&k2),
                        AnyBuilder::Raw(r) => r.add(&k2),
                    };
                    if (j + 1) % case.every == 0 {
                        let live = alloc::live() - base.live;
                        run.checkpoints += 1;
                        if live > run.max_live {
                            run.max_live = live;
                        }
                        if live > bound {
                            return viol(
                                "C13.live_heap_exceeds_bound",
                                format!(
                                    "after {} accepted inserts and a run of {} refused ones: {} B live > bound {} B (cache {:?})",
                                    i + 1,
                                    j + 1,
                                    live,
                                    bound,
                                    case.registry.unwrap_or((10_000, 2))
                                ),
                            );
                        }
                    }
                }
            }
            if (i + 1) % case.every == 0 || i + 1 == fam.n {
                let live = alloc::live() - base.live;
                run.checkpoints += 1;
                if live > run.max_live {
                    run.max_live = live;
                }
                if i + 1 <= std::cmp::max(case.every, fam.n / 10) {
                    run.live_at_tenth = live;
                }
                run.live_at_end = live;
                if live > bound {
                    return viol(
                        "C13.live_heap_exceeds_bound",
                        format!(
                            "after {} inserts ({} bytes emitted): {} B live > bound {} B (cache {:?}, fan-out {}, key length {})",
                            i + 1,
                            b.bytes_written(),
                            live,
                            bound,
                            case.registry.unwrap_or((10_000, 2)),
                            fam.fanout,
                            fam.keylen
                        ),
                    );
                }
            }
        }
        run.bytes_emitted = b.bytes_written();
        let (r, _) = b.finish(Fin::Finish);
        if r.is_err() {
            run.cut_short = true;
        }
        None
    }));
    run.allocs = alloc::mark().count - base.count;
    run.violation = match r {
        Ok(v) => v,
        Err(p) => viol("C13.panic", panic_msg(p)),
    };
    drop(sink);
    let mut d = Digest::new();
    d.u64(run.after_new as u64);
    d.u64(run.max_live as u64);
    d.u64(run.live_at_end as u64);
    d.u64(run.bytes_emitted);
    d.u64(run.allocs);
    d.u64(run.refused);
    d.u64(run.cut_short as u64);
    run.digest = d.finish();
    run
}

// ---------------------------------------------------------------- C14

#[derive(Clone, Debug, PartialEq, Eq)]
pub struct MemReadCase {
    pub n_small: u64,
    pub n_large: u64,
    pub fanout: u32,
    pub keylen: u32,
    pub seed: u64,
    /// number of input FSTs for the set operations
    pub k: u32,
}

#[derive(Clone, Debug, Default)]
pub struct OpMeasure {
    pub name: String,
    pub peak: i64,
    pub allocs: u64,
    pub emitted: u64,
}

#[derive(Clone, Debug, Default)]
pub struct MemReadRun {
    pub small: Vec<OpMeasure>,
    pub large: Vec<OpMeasure>,
    pub violation: Option<Violation>,
    pub digest: u64,
}

fn build_family(fam: &KeyFamily, k: u32) -> Vec<Vec<u8>> {
    // FST j holds key i unless hash(i, j) % 4 == 0, so the inputs overlap a
    // lot but none contains another.
    let mut out = Vec::new();
    let mut key = Vec::new();
    for j in 0..k as u64 {
        let mut b = fst::MapBuilder::memory();
        for i in 0..fam.n {
            if j > 0 && mix(fam.seed, 0x100 + j, i) % 4 == 0 {
                continue;
            }
            fam.key_into(i, &mut key);
            b.insert(&key, fam.value(i)).expect("harness: family build");
        }
        out.push(b.into_inner().expect("harness: family build"));
    }
    out
}

fn measure<F: FnOnce() -> u64>(name: &str, f: F) -> OpMeasure {
    let base = alloc::mark();
    alloc::reset_peak();
    let emitted = f();
    let peak = alloc::peak() - base.live;
    let allocs = alloc::mark().count - base.count;
    OpMeasure { name: name.to_string(), peak, allocs, emitted }
}

fn drain<'a, S>(mut s: S) -> u64
where
    S: for<'b> Streamer<'b>,
{
    let mut n = 0;
    while let Some(_) = s.next() {
        n += 1;
    }
    n
}


/// 1000 look-up probes: present keys, proper prefixes, extensions, and keys
/// with one byte changed.
fn make_probes(fam: &KeyFamily) -> Vec<Vec<u8>> {
    let mut key = Vec::with_capacity(fam.keylen as usize + 8);
    let mut probes: Vec<Vec<u8>> = Vec::new();
    for t in 0..1000u64 {
        let i = mix(fam.seed, 0x9e7, t) % fam.n;
        fam.key_into(i, &mut key);
        let mut p = key.clone();
        match t % 4 {
            0 => {}
            1 => {
                p.pop();
            }
            2 => p.push(b'!'),
            _ => {
                let l = p.len();
                p[l / 2] ^= 0x15;
            }
        }
        probes.push(p);
    }
    probes
}

fn open_and_get(main: &[u8], probes: &[Vec<u8>]) -> u64 {
    let f = fst::raw::Fst::new(main).expect("harness: open");
    let m = fst::Map::new(main).expect("harness: open");
    let s = fst::Set::new(main).expect("harness: open");
    let mut hits = 0;
    for p in probes {
        if f.get(p).is_some() {
            hits += 1;
        }
        if f.contains_key(p) {
            hits += 1;
        }
        if m.get(p).is_some() {
            hits += 1;
        }
        if m.contains_key(p) {
            hits += 1;
        }
        if s.contains(p) {
            hits += 1;
        }
    }
    hits
}

/// The body of `fstsim c14-cold`: stdin holds [u32 n][u32 len, bytes]*; blob 0
/// is an FST some other process built, the rest are probes. This process has
/// not touched the library yet (no builder, no stream), so anything the
/// library sets up lazily on first use is set up inside the measured region.
pub fn cold_child(input: &[u8]) -> String {
    let rd = |at: usize| u32::from_le_bytes([input[at], input[at + 1], input[at + 2], input[at + 3]]) as usize;
    let n = rd(0);
    let mut at = 4;
    let mut blobs: Vec<Vec<u8>> = Vec::with_capacity(n);
    for _ in 0..n {
        let l = rd(at);
        at += 4;
        blobs.push(input[at..at + l].to_vec());
        at += l;
    }
    let main = blobs.remove(0);
    let m = measure("cold", || open_and_get(&main[..], &blobs));
    format!("{} {} {}", m.allocs, m.peak, m.emitted)
}

/// Run `open + point look-ups` in a fresh process (parent side).
fn cold_reader(name: &str, fst_bytes: &[u8], probes: &[Vec<u8>]) -> OpMeasure {
    use std::io::{Read, Write};
    use std::process::{Command, Stdio};
    let mut input = Vec::with_capacity(fst_bytes.len() + 64 * probes.len());
    input.extend_from_slice(&((probes.len() + 1) as u32).to_le_bytes());
    for b in std::iter::once(fst_bytes).chain(probes.iter().map(|p| &p[..])) {
        input.extend_from_slice(&(b.len() as u32).to_le_bytes());
        input.extend_from_slice(b);
    }
    let exe = std::env::current_exe().expect("harness: current_exe");
    let mut child = Command::new(exe)
        .arg("c14-cold")
        .stdin(Stdio::piped())
        .stdout(Stdio::piped())
        .stderr(Stdio::inherit())
        .spawn()
        .expect("harness: spawn cold reader");
    child.stdin.take().expect("harness: stdin").write_all(&input).expect("harness: feed cold reader");
    let mut out = String::new();
    child.stdout.take().expect("harness: stdout").read_to_string(&mut out).expect("harness: read cold reader");
    let st = child.wait().expect("harness: wait cold reader");
    let f: Vec<i64> = out.split_whitespace().filter_map(|x| x.parse().ok()).collect();
    if !st.success() || f.len() != 3 {
        // the child runs only open + look-ups on a valid FST: dying there is
        // reported as a panic of those operations
        return OpMeasure { name: format!("{}.died", name), peak: -1, allocs: u64::MAX, emitted: 0 };
    }
    OpMeasure { name: name.to_string(), allocs: f[0] as u64, peak: f[1], emitted: f[2] as u64 }
}

fn measure_all(fam: &KeyFamily, k: u32, fsts_bytes: &[Vec<u8>]) -> Vec<OpMeasure> {
    let mut out = Vec::new();
    let main = &fsts_bytes[0];
    let mut key = Vec::with_capacity(fam.keylen as usize + 8);
    let probes = make_probes(fam);
    // open + point look-ups on borrowed bytes
    out.push(measure("open+get", || open_and_get(&main[..], &probes)));
    // the same in a fresh process that has never built or streamed anything
    out.push(cold_reader("open+get.cold_process", &main[..], &probes));
    // the same data as a version-2 file (no checksum trailer): older files
    // must open and answer look-ups without allocating as well
    let mut v2 = main[..main.len() - 4].to_vec();
    v2[..8].copy_from_slice(&2u64.to_le_bytes());
    out.push(measure("open+get.v2", || {
        let f = fst::raw::Fst::new(&v2[..]).expect("harness: open v2");
        let m = fst::Map::new(&v2[..]).expect("harness: open v2");
        let mut hits = 0;
        for p in &probes {
            if f.get(p).is_some() {
                hits += 1;
            }
            if m.contains_key(p) {
                hits += 1;
            }
        }
        hits
    }));
    let maps: Vec<fst::Map<&[u8]>> = fsts_bytes
        .iter()
        .map(|b| fst::Map::new(&b[..]).expect("harness: open"))
        .collect();
    let sets: Vec<fst::Set<&[u8]>> = fsts_bytes
        .iter()
        .map(|b| fst::Set::new(&b[..]).expect("harness: open"))
        .collect();
    let m0 = &maps[0];
    out.push(measure("stream", || drain(m0.stream())));
    out.push(measure("keys", || drain(m0.keys())));
    out.push(measure("values", || drain(m0.values())));
    out.push(measure("raw.stream", || drain(m0.as_fst().stream())));
    fam.key_into(fam.n / 4, &mut key);
    let lo = key.clone();
    fam.key_into(fam.n - fam.n / 4 - 1, &mut key);
    let hi = key.clone();
    out.push(measure("range", || drain(m0.range().ge(&lo).lt(&hi).into_stream())));
    out.push(measure("set.range", || drain(sets[0].range().gt(&lo).le(&hi).into_stream())));
    // automata are built outside the measured region (their size depends on
    // the query, not on the FST)
    let first = fam.letter(0) as char;
    let sub = format!("{}{}", first, first);
    let subseq = Subsequence::new(&sub);
    out.push(measure("search.subsequence", || drain(m0.search(&subseq).into_stream())));
    let pre = String::from_utf8_lossy(&lo[..std::cmp::min(2, lo.len())]).to_string();
    let sw = Str::new(&pre).starts_with();
    out.push(measure("search.starts_with", || drain(m0.search(&sw).into_stream())));
    if fam.fanout <= 26 {
        let q = String::from_utf8_lossy(&lo).to_string();
        if let Ok(lev) = Levenshtein::new(&q, 1) {
            out.push(measure("search.levenshtein", || drain(m0.search(&lev).into_stream())));
            out.push(measure("search_with_state.levenshtein", || {
                let mut s = m0.search_with_state(&lev).into_stream();
                let mut n = 0;
                while let Some(_) = s.next() {
                    n += 1;
                }
                n
            }));
        }
    }
    out.push(measure("search.complement+range", || {
        drain(m0.search(subseq.clone().complement()).ge(&lo).into_stream())
    }));
    for &kk in &[2u32, 4, 8] {
        if kk > k {
            break;
        }
        let kk = kk as usize;
        out.push(measure(&format!("union.k{}", kk), || {
            let mut ob = fst::map::OpBuilder::new();
            for m in &maps[..kk] {
                ob.push(m);
            }
            drain(ob.union())
        }));
        out.push(measure(&format!("intersection.k{}", kk), || {
            let mut ob = fst::map::OpBuilder::new();
            for m in &maps[..kk] {
                ob.push(m);
            }
            drain(ob.intersection())
        }));
        out.push(measure(&format!("difference.k{}", kk), || {
            let mut ob = fst::set::OpBuilder::new();
            for s in &sets[..kk] {
                ob.push(s);
            }
            drain(ob.difference())
        }));
        out.push(measure(&format!("symmetric_difference.k{}", kk), || {
            let mut ob = fst::set::OpBuilder::new();
            for s in &sets[..kk] {
                ob.push(s);
            }
            drain(ob.symmetric_difference())
        }));
        out.push(measure(&format!("union.mixed.k{}", kk), || {
            // streams of different kinds: whole FST, range, search
            let mut ob = fst::map::OpBuilder::new();
            for (j, m) in maps[..kk].iter().enumerate() {
                match j % 3 {
                    0 => ob.push(m),
                    1 => ob.push(m.range().ge(&lo)),
                    _ => ob.push(m.search(&sw)),
                }
            }
            drain(ob.union())
        }));
    }
    // long runs of non-common keys: a tiny FST (every 1000th key) and an
    // FST that shares no key with the main one but interleaves with it
    {
        let mut tb = fst::MapBuilder::memory();
        let mut db = fst::MapBuilder::memory();
        for i in 0..fam.n {
            fam.key_into(i, &mut key);
            if i % 1000 == 0 {
                tb.insert(&key, 1).expect("harness: tiny");
            }
            if i % 2 == 0 {
                key.push(b'~');
                db.insert(&key, 2).expect("harness: disjoint");
            }
        }
        let tiny_b = tb.into_inner().expect("harness: tiny");
        let disj_b = db.into_inner().expect("harness: disjoint");
        let tiny = fst::Map::new(&tiny_b[..]).expect("harness: open");
        let disj = fst::Map::new(&disj_b[..]).expect("harness: open");
        let tiny_s = fst::Set::new(&tiny_b[..]).expect("harness: open");
        let disj_s = fst::Set::new(&disj_b[..]).expect("harness: open");
        out.push(measure("intersection.main_x_tiny.k2", || drain(m0.op().add(&tiny).intersection())));
        out.push(measure("intersection.main_x_disjoint.k2", || drain(m0.op().add(&disj).intersection())));
        out.push(measure("union.main_x_disjoint.k2", || drain(m0.op().add(&disj).union())));
        out.push(measure("symmetric_difference.main_x_disjoint.k2", || {
            drain(sets[0].op().add(&disj_s).symmetric_difference())
        }));
        out.push(measure("difference.main_minus_tiny.k2", || drain(sets[0].op().add(&tiny_s).difference())));
        out.push(measure("difference.main_minus_disjoint.k2", || drain(sets[0].op().add(&disj_s).difference())));
        out.push(measure("is_disjoint.main_x_disjoint.k2", || sets[0].is_disjoint(&disj_s) as u64));
        out.push(measure("is_subset.tiny_in_main.k2", || tiny_s.is_subset(&sets[0]) as u64));
        out.push(measure("is_superset.main_of_tiny.k2", || sets[0].is_superset(&tiny_s) as u64));
    }
    // operands whose key ranges do NOT interleave (segment j holds the j-th
    // quarter of the keys): one stream wins the merge for a very long
    // uninterrupted run, then the next one
    {
        let kk = 4usize;
        let mut segs: Vec<Vec<u8>> = Vec::new();
        for j in 0..kk as u64 {
            let mut b = fst::MapBuilder::memory();
            let lo_i = j * fam.n / kk as u64;
            let hi_i = (j + 1) * fam.n / kk as u64;
            for i in lo_i..hi_i {
                fam.key_into(i, &mut key);
                b.insert(&key, fam.value(i)).expect("harness: segment");
            }
            segs.push(b.into_inner().expect("harness: segment"));
        }
        let smaps: Vec<fst::Map<&[u8]>> = segs.iter().map(|b| fst::Map::new(&b[..]).expect("harness: open")).collect();
        let ssets: Vec<fst::Set<&[u8]>> = segs.iter().map(|b| fst::Set::new(&b[..]).expect("harness: open")).collect();
        out.push(measure("union.segments.k4", || {
            let mut ob = fst::map::OpBuilder::new();
            for m in &smaps {
                ob.push(m);
            }
            drain(ob.union())
        }));
        out.push(measure("intersection.segments.k4", || {
            let mut ob = fst::map::OpBuilder::new();
            for m in &smaps {
                ob.push(m);
            }
            drain(ob.intersection())
        }));
        out.push(measure("difference.segments.k4", || {
            let mut ob = fst::set::OpBuilder::new();
            for s in &ssets {
                ob.push(s);
            }
            drain(ob.difference())
        }));
        out.push(measure("symmetric_difference.segments.k4", || {
            let mut ob = fst::set::OpBuilder::new();
            for s in &ssets {
                ob.push(s);
            }
            drain(ob.symmetric_difference())
        }));
        // the whole FST against one of its quarters
        out.push(measure("union.main_x_segment.k2", || drain(m0.op().add(&smaps[1]).union())));
        out.push(measure("symmetric_difference.main_x_segment.k2", || {
            drain(sets[0].op().add(&ssets[2]).symmetric_difference())
        }));
    }
    // operands handed over through Extend / FromIterator from an iterator
    // whose size_hint is loose (filter: upper bound = all candidates): the
    // heap of the operation depends on k, not on what the iterator might
    // have yielded
    {
        let pick = |i: &u32| *i % 1_000_000 == 0;
        out.push(measure("union.collected_from_filter.k3", || {
            let ob: fst::map::OpBuilder = (0..3_000_000u32).filter(pick).map(|i| &maps[(i / 1_000_000) as usize % maps.len()]).collect();
            drain(ob.union())
        }));
        out.push(measure("intersection.extended_from_filter.k3", || {
            let mut ob = fst::set::OpBuilder::new();
            ob.extend((0..3_000_000u32).filter(pick).map(|i| &sets[(i / 1_000_000) as usize % sets.len()]));
            drain(ob.intersection())
        }));
        out.push(measure("raw.union.collected_from_filter.k3", || {
            let ob: fst::raw::OpBuilder = (0..3_000_000u32).filter(pick).map(|i| maps[(i / 1_000_000) as usize % maps.len()].as_fst()).collect();
            let mut u = ob.union();
            let mut n = 0;
            while let Some(_) = u.next() {
                n += 1;
            }
            n
        }));
    }
    // enumeration through the formatting traits (Debug of a Map / Set walks
    // a stream), compact and pretty, into a writer that discards
    {
        use std::fmt::Write;
        // (a writer of our own: std's io::Sink does not format at all)
        struct Discard(u64);
        impl std::fmt::Write for Discard {
            fn write_str(&mut self, s: &str) -> std::fmt::Result {
                self.0 += s.len() as u64;
                Ok(())
            }
        }
        out.push(measure("debug_fmt.map", || {
            let mut d = Discard(0);
            let _ = write!(d, "{:?}", m0);
            d.0
        }));
        out.push(measure("debug_fmt_alternate.map", || {
            let mut d = Discard(0);
            let _ = write!(d, "{:#?}", m0);
            d.0
        }));
        out.push(measure("debug_fmt_alternate.set", || {
            let mut d = Discard(0);
            let _ = write!(d, "{:#?}", sets[0]);
            d.0
        }));
    }
    // more than 2^20 point look-ups on ONE opened object of each kind
    out.push(measure("open+get.over_2pow20_lookups_per_object", || {
        let f = fst::raw::Fst::new(&main[..]).expect("harness: open");
        let m = fst::Map::new(&main[..]).expect("harness: open");
        let s = fst::Set::new(&main[..]).expect("harness: open");
        let mut hits = 0u64;
        let rounds = (1u64 << 20) / probes.len() as u64 + 60;
        for _ in 0..rounds {
            for p in &probes {
                hits += f.contains_key(p) as u64;
                hits += m.get(p).is_some() as u64;
                hits += s.contains(p) as u64;
            }
        }
        hits
    }));
    // many short-lived streams one after another on this thread: successor
    // queries (a lower-bounded range dropped after one item) and small
    // unions; then once more a complete scan. Neither the run of queries
    // nor the scan that follows may hold more than one stream's worth.
    out.push(measure("successor_queries.x20000", || {
        let mut n = 0u64;
        for p in probes.iter().cycle().take(20_000) {
            let mut r = m0.range().ge(p).into_stream();
            if r.next().is_some() {
                n += 1;
            }
        }
        n
    }));
    out.push(measure("union.k2.x2000_dropped_after_3_items", || {
        let mut n = 0u64;
        for p in probes.iter().cycle().take(2_000) {
            let mut u = m0.op().add(maps[maps.len() - 1].range().ge(p)).union();
            for _ in 0..3 {
                if u.next().is_some() {
                    n += 1;
                }
            }
        }
        n
    }));
    out.push(measure("stream.after_22000_earlier_streams", || drain(m0.stream())));
    out.push(measure("is_subset/superset/disjoint", || {
        let a = &sets[0];
        let b = &sets[std::cmp::min(1, sets.len() - 1)];
        (a.is_subset(b) as u64) + (a.is_superset(b) as u64) + (a.is_disjoint(b) as u64)
    }));
    out
}

pub fn read_bound(name: &str, keylen: u32) -> i64 {
    let l = std::cmp::max(64, keylen as i64);
    let k: i64 = name
        .rsplit(".k")
        .next()
        .and_then(|s| s.parse().ok())
        .unwrap_or(2);
    if name.starts_with("open+get") {
        0
    } else if name.contains(".k") || name.starts_with("is_") {
        k * (4096 + 512 * l) + 4096
    } else {
        4096 + 512 * l
    }
}

pub fn run_mem_read(case: &MemReadCase) -> MemReadRun {
    let mut run = MemReadRun::default();
    let r = catch_unwind(AssertUnwindSafe(|| -> Option<Violation> {
        for (which, n) in [(0, case.n_small), (1, case.n_large)] {
            let fam = KeyFamily { n, fanout: case.fanout, keylen: case.keylen, seed: case.seed, pairs: false, leaf_fan: 0, decreasing: false, repeat: 1, sec_vocab: 0, sec_parents: 0 };
            let fsts = build_family(&fam, case.k);
            let ms = measure_all(&fam, case.k, &fsts);
            if which == 0 {
                run.small = ms;
            } else {
                run.large = ms;
            }
        }
        for m in run.small.iter().chain(run.large.iter()) {
            if m.name.starts_with("open+get") {
                if m.name.ends_with(".died") {
                    return viol(
                        "C14.cold_reader_died",
                        format!("{}: a fresh process running only open + point look-ups on a valid FST did not finish", m.name),
                    );
                }
                if m.allocs != 0 {
                    return viol(
                        "C14.open_or_lookup_allocates",
                        format!("{}: open + point look-ups on borrowed bytes made {} allocations", m.name, m.allocs),
                    );
                }
                continue;
            }
            let b = read_bound(&m.name, case.keylen);
            if m.peak > b {
                return viol(
                    "C14.peak_heap_exceeds_bound",
                    format!("{}: peak {} B > bound {} B (key length {})", m.name, m.peak, b, case.keylen),
                );
            }
        }
        for (s, l) in run.small.iter().zip(run.large.iter()) {
            if s.name != l.name {
                return viol("C14.harness.op_lists_differ", format!("{} vs {}", s.name, l.name));
            }
            if l.peak > 2 * s.peak + 1024 {
                return viol(
                    "C14.peak_heap_grows_with_fst_size",
                    format!(
                        "{}: peak {} B at N={} but {} B at N={} ({} vs {} items emitted)",
                        s.name, s.peak, case.n_small, l.peak, case.n_large, s.emitted, l.emitted
                    ),
                );
            }
        }
        None
    }));
    run.violation = match r {
        Ok(v) => v,
        Err(p) => viol("C14.panic", panic_msg(p)),
    };
    let mut d = Digest::new();
    for m in run.small.iter().chain(run.large.iter()) {
        d.str(&m.name);
        d.u64(m.peak as u64);
        d.u64(m.allocs);
        d.u64(m.emitted);
    }
    run.digest = d.finish();
    run
}

#[allow(dead_code)]
fn _unused(_: Rc<()>) {}

#[allow(dead_code)]
fn _aut<A: Automaton>(_: A) {}

// ------------------------------------------------ C01: large round trips

const BIG_BOUNDARY: [u64; 12] = [
    0,
    0xff,
    0x100,
    0xffff,
    0x1_0000,
    0xff_ffff,
    0x100_0000,
    0xffff_ffff,
    0x1_0000_0000,
    0xffff_ffff_ffff,
    u64::MAX,
    u64::MAX - 1,
];

pub fn big_value(fam: &KeyFamily, map: bool, i: u64) -> u64 {
    if !map {
        return 0;
    }
    let h = mix(fam.seed, 0x62, i);
    match h % 4 {
        0 => fam.value(i),
        1 => BIG_BOUNDARY[((h >> 8) % BIG_BOUNDARY.len() as u64) as usize],
        2 => i,
        _ => u64::MAX - i,
    }
}

pub struct BigRun {
    pub violation: Option<Violation>,
    pub digest: u64,
    pub bytes: u64,
    pub short: u64,
    pub intr: u64,
    pub zero: u64,
}

/// Stream a large generated family through a real builder into a simulated
/// file with short writes, reopen it, and compare the full enumeration with
/// the regenerated family (nothing but the file is kept in memory).
pub fn run_big_roundtrip(pid: &str, case: &MemBuildCase) -> BigRun {
    let fam = case.fam;
    let mut sink = SinkState::new(
        Plan::clean(),
        Decider::Random {
            shape: Shape::Random { short_16: 3, intr_16: 1 },
            rng: Rng::new(fam.seed ^ 0x77),
        },
        &[],
    );
    sink.keep_log = false;
    sink.record = false;
    let sink = sink.handle();
    let (tap, _t) = Tap::new(sink.clone(), case.bufcap);
    let front = if case.map { Front::Map } else { Front::Set };
    let mut key = Vec::new();
    let r = catch_unwind(AssertUnwindSafe(|| -> Option<Violation> {
        let mut b = match AnyBuilder::create(front, tap, case.registry) {
            Ok(b) => b,
            Err(e) => return viol(&format!("{}.big.constructor_failed", pid), format!("{:?}", e)),
        };
        for i in 0..fam.n {
            fam.key_into(i, &mut key);
            let r = match &mut b {
                AnyBuilder::Map(m) => m.insert(&key, big_value(&fam, true, i)),
                AnyBuilder::Set(s) => s.insert(&key),
                AnyBuilder::Raw(r) => r.add(&key),
            };
            if let Err(e) = r {
                return viol(&format!("{}.legal_call_rejected", pid), format!("key {}: {:?}", i, e));
            }
        }
        let (r, _) = b.finish(Fin::Finish);
        if let Err(e) = r {
            return viol(&format!("{}.finish_failed", pid), format!("{:?}", e));
        }
        None
    }));
    let mut out = BigRun { violation: None, digest: 0, bytes: 0, short: 0, intr: 0, zero: 0 };
    match r {
        Err(p) => {
            out.violation = viol(&format!("{}.panic", pid), panic_msg(p));
            return out;
        }
        Ok(Some(v)) => {
            out.violation = Some(v);
            return out;
        }
        Ok(None) => {}
    }
    let st = match Rc::try_unwrap(sink) {
        Ok(c) => c.into_inner(),
        Err(_) => panic!("harness: sink handle still shared"),
    };
    out.bytes = st.durable.len() as u64;
    out.short = st.fired.short;
    out.intr = st.fired.intr;
    let bytes = st.durable;
    let mut d = Digest::new();
    d.bytes(&bytes);
    out.digest = d.finish();
    let r = catch_unwind(AssertUnwindSafe(|| -> Option<Violation> {
        if let Some(v) = crate::oracle::check_footer(pid, &bytes) {
            return Some(v);
        }
        let f = match fst::raw::Fst::new(&bytes[..]) {
            Ok(f) => f,
            Err(e) => return viol(&format!("{}.readback_failed", pid), format!("{:?}", e)),
        };
        if let Err(e) = f.verify() {
            return viol(&format!("{}.verify_rejects_fresh_build", pid), format!("{:?}", e));
        }
        if let Some(v) = crate::exec::unaligned_verify(pid, &bytes) {
            return Some(v);
        }
        if f.len() as u64 != fam.n || f.is_empty() != (fam.n == 0) {
            return viol(
                "C01.len_or_is_empty_wrong",
                format!("len()={} for {} keys", f.len(), fam.n),
            );
        }
        let mut s = f.stream();
        let mut i = 0u64;
        let mut key = Vec::new();
        while let Some((k, v)) = s.next() {
            if i >= fam.n {
                return viol(&format!("{}.content_differs_from_model", pid), format!("more than {} entries", fam.n));
            }
            fam.key_into(i, &mut key);
            let want = big_value(&fam, case.map, i);
            if k != &key[..] || v.value() != want {
                return viol(
                    "C01.content_differs_from_model",
                    format!(
                        "entry {}: got {}={} want {}={}",
                        i,
                        crate::front::hex(k),
                        v.value(),
                        crate::front::hex(&key),
                        want
                    ),
                );
            }
            i += 1;
        }
        if i != fam.n {
            return viol(&format!("{}.content_differs_from_model", pid), format!("{} entries, want {}", i, fam.n));
        }
        None
    }));
    out.violation = match r {
        Ok(v) => v,
        Err(p) => viol(&format!("{}.reader_panicked", pid), panic_msg(p)),
    };
    out
}

// ------------------------------------- C11: faults on a multi-MiB build

/// Stream a large family into a sink whose FIRST flush call fails, whenever
/// that call comes (on the pinned tree the only flush is the final one; a
/// builder that flushes periodically must report a failed intermediate flush
/// from the call in progress as well). Also: a write that fails far into
/// the build (node cache full, evictions happening).
pub fn run_big_fault(case: &MemBuildCase, fault_write_at: Option<usize>) -> BigRun {
    use crate::sink::{ErrKind, WStep};
    let fam = case.fam;
    let mut plan = Plan::clean();
    match fault_write_at {
        None => plan.fault_flush = Some((0, ErrKind::Other)),
        // `rejects` = 1 selects: Ok(0) at the first write of 3..=7 bytes at
        // or after that index (in a set: an address more than 64 KiB back)
        Some(i) if case.rejects == 1 => plan.fault_write_sized = Some((i, 3, 7)),
        Some(i) => plan.fault_write = Some((i, WStep::Err(ErrKind::StorageFull))),
    }
    let mut sink = SinkState::new(plan, Decider::Random { shape: case.shape, rng: Rng::new(fam.seed ^ 0x99) }, &[]);
    sink.keep_log = false;
    sink.record = false;
    sink.discard = true;
    let sink = sink.handle();
    let (tap, _t) = Tap::new(sink.clone(), case.bufcap);
    let front = if case.map { Front::Map } else { Front::Set };
    let mut key = Vec::new();
    let mut out = BigRun { violation: None, digest: 0, bytes: 0, short: 0, intr: 0, zero: 0 };
    let want_kind = if fault_write_at.is_none() {
        std::io::ErrorKind::Other
    } else if case.rejects == 1 {
        std::io::ErrorKind::WriteZero
    } else {
        std::io::ErrorKind::StorageFull
    };
    let r = catch_unwind(AssertUnwindSafe(|| -> Option<Violation> {
        let mut b = match AnyBuilder::create(front, tap, case.registry) {
            Ok(b) => b,
            Err(e) => {
                return if sink.borrow().first_fault_event.is_some() {
                    None
                } else {
                    viol("C11.harness.constructor_failed", format!("{:?}", e))
                }
            }
        };
        let judge = |r: &fst::Result<()>, what: &str, fired: bool| -> Option<Option<Violation>> {
            // Some(x) = stop with verdict x; None = go on
            match (r, fired) {
                (Ok(()), false) => None,
                (Ok(()), true) => Some(viol(
                    "C11.O2.fault_not_surfaced_as_io_error",
                    format!("the sink failed during {} which returned Ok", what),
                )),
                (Err(fst::Error::Io(e)), true) if e.kind() == want_kind => Some(None),
                (Err(e), f) => Some(viol(
                    "C11.O2.fault_not_surfaced_as_io_error",
                    format!("{} returned {:?} (sink fault fired: {})", what, e, f),
                )),
            }
        };
        for i in 0..fam.n {
            fam.key_into(i, &mut key);
            let r = match &mut b {
                AnyBuilder::Map(m) => m.insert(&key, big_value(&fam, true, i)),
                AnyBuilder::Set(s) => s.insert(&key),
                AnyBuilder::Raw(r) => r.add(&key),
            };
            let fired = sink.borrow().first_fault_event.is_some();
            if let Some(verdict) = judge(&r, &format!("insert #{}", i), fired) {
                return verdict;
            }
        }
        let (r, _) = b.finish(Fin::Finish);
        let fired = sink.borrow().first_fault_event.is_some();
        match judge(&r, "finish", fired) {
            Some(verdict) => verdict,
            // the write index chosen for the fault was never reached
            None if fault_write_at.is_some() => None,
            None => viol(
                "C11.O4.finished_without_flush",
                "finish returned Ok and the sink never saw the flush call that was set to fail".into(),
            ),
        }
    }));
    out.violation = match r {
        Ok(v) => v,
        Err(p) => viol("C11.O1.panic", panic_msg(p)),
    };
    let st = sink.borrow();
    out.bytes = st.total_accepted;
    out.short = st.fired.short;
    out.intr = st.fired.intr;
    out.zero = st.fired.zero;
    let mut d = Digest::new();
    d.u64(out.bytes);
    d.u64(st.ev_idx);
    d.u64(out.violation.is_some() as u64);
    out.digest = d.finish();
    out
}

// ------------------------------- C01: address deltas at pack-size boundaries

/// A map whose root has a transition with an address delta of EXACTLY
/// `target` bytes (pack-size boundaries 2^8, 2^16, 2^24 and neighbours):
/// the first key's sub-automaton is compiled first, filler keys follow, and a
/// last key "z" + "e"*p pads the distance (each 'e' adds a one-byte node).
/// The padding is computed from the measured distance of a trial build.
#[derive(Clone, Debug, PartialEq, Eq)]
pub struct DeltaCase {
    pub target: u64,
    pub seed: u64,
}

fn delta_keys(n: u64, seed: u64, pad: u64) -> (KeyFamily, u64, Vec<u8>) {
    let fam = KeyFamily { n: std::cmp::max(n, 1), fanout: 26, keylen: 12, seed, pairs: false, leaf_fan: 0, decreasing: false, repeat: 1, sec_vocab: 0, sec_parents: 0 };
    let mut last = vec![b'z'];
    last.extend(std::iter::repeat(b'e').take(pad as usize));
    (fam, n, last)
}

fn delta_build(n: u64, seed: u64, pad: u64) -> Vec<u8> {
    let (fam, n, last) = delta_keys(n, seed, pad);
    let mut b = fst::MapBuilder::memory();
    b.insert(b"Ab", 7).expect("harness: delta build");
    let mut key = Vec::new();
    for i in 0..n {
        fam.key_into(i, &mut key);
        b.insert(&key, fam.value(i)).expect("harness: delta build");
    }
    b.insert(&last, 9).expect("harness: delta build");
    b.into_inner().expect("harness: delta build")
}

/// Distance between the first byte of the root node and the node its first
/// transition points to, as the format defines a delta.
fn root_first_delta(bytes: &[u8]) -> Option<u64> {
    let f = fst::raw::Fst::new(bytes).ok()?;
    let root = f.root();
    if root.len() == 0 {
        return None;
    }
    let start = root.addr() + 1 - root.as_slice().len();
    Some((start - root.transition_addr(0)) as u64)
}

/// Find (n, pad) such that the root's first transition has a delta of
/// exactly `target`: n filler keys bring the distance close, pad finishes it.
fn delta_fit(target: u64, seed: u64) -> Option<(u64, u64, Vec<u8>)> {
    // bytes of output per filler key, from a sample
    let per_key = if target > 50_000 {
        let d = root_first_delta(&delta_build(4_000, seed, 3))? as f64;
        d / 4_000.0
    } else {
        13.0
    };
    let mut n = if target < 600 { 0 } else { ((target - 400) as f64 / (per_key * 1.004)) as u64 };
    // Measurements are only taken BELOW the target (with one padding byte),
    // where the distance cannot be at the boundary under test; the padding
    // for the final build is then computed, not searched: every further 'e'
    // of the last key adds exactly one one-byte node in front of the root.
    // (from three padding bytes on the relation is exactly linear; the first
    // two 'e' nodes may be shared with existing nodes through the cache)
    for _ in 0..8 {
        let bytes = delta_build(n, seed, 3);
        let d3 = root_first_delta(&bytes)?;
        if d3 <= target {
            let pad = 3 + (target - d3);
            let fin = if pad == 3 { bytes } else { delta_build(n, seed, pad) };
            return Some((n, pad, fin));
        }
        let drop = ((d3 - target) as f64 / per_key) as u64 + 20;
        n = n.saturating_sub(drop);
    }
    None
}

pub fn run_delta_boundary(case: &DeltaCase) -> BigRun {
    let mut out = BigRun { violation: None, digest: 0, bytes: 0, short: 0, intr: 0, zero: 0 };
    let r = catch_unwind(AssertUnwindSafe(|| -> Option<Violation> {
        let (n, pad, bytes) = match delta_fit(case.target, case.seed) {
            Some(x) => x,
            // the construction did not converge: nothing is judged (counted
            // in the evidence as a miss of the probe, not as a violation)
            None => return None,
        };
        out.bytes = bytes.len() as u64;
        let mut d = Digest::new();
        d.bytes(&bytes[..std::cmp::min(bytes.len(), 4096)]);
        d.u64(bytes.len() as u64);
        out.digest = d.finish();
        if let Some(dd) = root_first_delta(&bytes) {
            out.short = (dd == case.target) as u64;
            out.intr = dd;
        }
        if let Some(v) = crate::oracle::check_footer("C01", &bytes) {
            return Some(v);
        }
        let f = match fst::raw::Fst::new(&bytes[..]) {
            Ok(f) => f,
            Err(e) => return viol("C01.readback_failed", format!("{:?}", e)),
        };
        let (fam, n, last) = delta_keys(n, case.seed, pad);
        if f.len() as u64 != n + 2 {
            return viol("C01.len_or_is_empty_wrong", format!("len()={} for {} keys", f.len(), n + 2));
        }
        let mut s = f.stream();
        let mut i = 0u64;
        let mut key = Vec::new();
        while let Some((k, v)) = s.next() {
            let (wk, wv): (&[u8], u64) = if i == 0 {
                (b"Ab", 7)
            } else if i <= n {
                fam.key_into(i - 1, &mut key);
                (&key[..], fam.value(i - 1))
            } else if i == n + 1 {
                (&last[..], 9)
            } else {
                return viol("C01.content_differs_from_model", "more entries than keys".into());
            };
            if k != wk || v.value() != wv {
                return viol(
                    "C01.content_differs_from_model",
                    format!(
                        "entry {} of a map whose root has a transition with address delta {}: got {}={} want {}={}",
                        i,
                        case.target,
                        crate::front::hex(&k[..std::cmp::min(k.len(), 16)]),
                        v.value(),
                        crate::front::hex(&wk[..std::cmp::min(wk.len(), 16)]),
                        wv
                    ),
                );
            }
            i += 1;
        }
        if i != n + 2 {
            return viol("C01.content_differs_from_model", format!("{} entries, want {}", i, n + 2));
        }
        // the far transition itself: a point look-up through it
        if f.get(b"Ab").map(|o| o.value()) != Some(7) {
            return viol("C01.content_differs_from_model", "get(\"Ab\") through the far transition".into());
        }
        None
    }));
    out.violation = match r {
        Ok(v) => v,
        Err(p) => viol("C01.reader_panicked", panic_msg(p)),
    };
    out
}

pub fn debug_delta(n: u64, seed: u64, pad: u64) -> Option<u64> {
    root_first_delta(&delta_build(n, seed, pad))
}
