//! Execute one explicit case for one property: run the real code inside the
//! simulated world, evaluate the property's oracles, report.

use crate::build::{run_build, BuildCase};
use crate::case::Case;
use crate::mem::{run_mem_build, run_mem_read};
use crate::multi::{check_multi, run_multi, MKind, MTask, MultiCase};
use crate::oracle::{
    check_c01, check_c06, check_c07, check_c11, check_footer, Violation,
};
use crate::payload::{check_payload, run_payload, PayloadCase};
use crate::restart::{
    base_bytes, check_c08b_bytes, check_c20_bytes, mutated, Base, CorruptCase,
};
use crate::rng::Digest;
use crate::sink::{FStep, Plan, WStep};

pub struct Outcome {
    pub digest: u64,
    pub nontrivial: bool,
    pub violation: Option<Violation>,
    /// the same case with every PRNG-drawn decision written out
    pub explicit: Case,
    /// named counters (fault kinds fired, probes hit)
    pub tags: Vec<(&'static str, u64)>,
    /// logical steps simulated (public calls + sink events + schedule steps)
    pub steps: u64,
    /// measurements worth showing in the evidence (resource scenarios)
    pub detail: serde_json::Value,
}

thread_local! {
    static ON_ORDINARY_STACK: std::cell::Cell<bool> = const { std::cell::Cell::new(false) };
}

fn long_interrupted_run(bc: &BuildCase) -> bool {
    let mut run = 0usize;
    for w in &bc.plan.writes {
        if matches!(w, WStep::Intr) {
            run += 1;
            if run >= 50_000 {
                return true;
            }
        } else {
            run = 0;
        }
    }
    false
}

pub fn harness_error(msg: String) -> ! {
    eprintln!("HARNESS ERROR: {}", msg);
    std::process::exit(2);
}

/// The fault-free twin of a fault-injecting build case.
pub fn dry_of(case: &BuildCase) -> BuildCase {
    let mut c = case.clone();
    c.plan.sticky = None;
    c.plan.crash = None;
    c.plan.flips.clear();
    c.plan.fault_write = None;
    c.plan.fault_flush = None;
    for w in c.plan.writes.iter_mut() {
        if matches!(w, WStep::Err(_) | WStep::Zero) {
            *w = WStep::Full;
        }
    }
    for f in c.plan.flushes.iter_mut() {
        *f = FStep::Ok;
    }
    c
}

pub fn explicit_build(case: &BuildCase, recorded: Plan) -> BuildCase {
    let mut c = case.clone();
    c.plan = recorded;
    c.random = None;
    c
}

fn sink_tags(run: &crate::build::BuildRun, case: &BuildCase) -> Vec<(&'static str, u64)> {
    let f = &run.sink.fired;
    let mut t = vec![
        ("sink.short_write", f.short),
        ("sink.full_write", f.full),
        ("sink.interrupted", f.intr),
        ("sink.hard_error", f.err),
        ("sink.ok0", f.zero),
        ("sink.flush_error", f.flush_err),
        ("sink.crash", f.crash),
        ("sink.inflight_flip", f.flip),
        ("probe.short_write_split_buffer_ge_256", f.split_big),
    ];
    let errs = f.intr + f.err + f.flush_err + f.crash;
    if errs > 0 {
        t.push((
            match case.plan.err_repr {
                crate::sink::ErrRepr::Message => "sink.errors_built_with_text_payload",
                crate::sink::ErrRepr::Simple => "sink.errors_built_from_bare_kind",
                crate::sink::ErrRepr::OsCode => "sink.errors_built_from_errno",
                crate::sink::ErrRepr::FstPayload => "sink.errors_carrying_an_fst_error_payload",
            },
            errs,
        ));
    }
    if case.bufcap.is_some() {
        t.push(("layer.bufwriter", 1));
    }
    if !case.prefill.is_empty() {
        t.push(("sink.prefilled", 1));
    }
    match case.task.registry {
        None => t.push(("geometry.default", 1)),
        Some((0, _)) | Some((_, 0)) => t.push(("geometry.cache_disabled", 1)),
        Some((_, c)) if c >= 3 => t.push(("geometry.ge3_columns", 1)),
        Some(_) => t.push(("geometry.small", 1)),
    }
    // an Interrupted that landed inside finish (footer / checksum / flush)
    let fin_call = (case.task.ops.len() + 1) as u32;
    let intr_fin = run
        .sink
        .log
        .iter()
        .filter(|e| e.op == fin_call && e.outcome == -1)
        .count() as u64;
    if intr_fin > 0 {
        t.push(("probe.interrupted_inside_finish", intr_fin));
    }
    let short_fin = run
        .sink
        .log
        .iter()
        .filter(|e| e.op == fin_call && e.outcome > 0 && (e.outcome as usize) < e.req)
        .count() as u64;
    if short_fin > 0 {
        t.push(("probe.short_write_inside_finish", short_fin));
    }
    t
}

pub fn exec(prop: &str, case: &Case) -> Outcome {
    match (prop, case) {
        // "Interrupted any number of times": a very long uninterrupted run
        // of Interrupted is executed on a thread with an ordinary 2 MiB stack
        // (the batch workers have 64 MiB), so that a retry that costs stack
        // per Interrupted shows as what it is
        ("C07", Case::Build(bc)) if long_interrupted_run(bc) && !ON_ORDINARY_STACK.with(|c| c.get()) => {
            let case2 = case.clone();
            let h = std::thread::Builder::new()
                .stack_size(2 << 20)
                .spawn(move || {
                    ON_ORDINARY_STACK.with(|c| c.set(true));
                    crate::front::install_quiet_panic_hook();
                    exec("C07", &case2)
                })
                .expect("harness: spawn");
            match h.join() {
                Ok(o) => o,
                Err(p) => Outcome {
                    digest: 0,
                    nontrivial: true,
                    violation: Some(Violation { oracle: "C07.panic".into(), observed: crate::front::panic_msg(p) }),
                    explicit: case.clone(),
                    tags: vec![],
                    steps: 0,
                    detail: serde_json::Value::Null,
                },
            }
        }
        ("C07", Case::Build(bc)) | ("C01", Case::Build(bc)) | ("C06", Case::Build(bc)) => {
            let run = run_build(bc);
            let violation = match prop {
                "C07" => check_c07(bc, &run),
                "C01" => check_c01(bc, &run),
                _ => check_c06(bc, &run),
            };
            let f = &run.sink.fired;
            let mut tags = sink_tags(&run, bc);
            let rejected = run.results.iter().filter(|r| !r.is_ok()).count() as u64;
            if rejected > 0 {
                tags.push(("history.rejected_calls", rejected));
            }
            let nontrivial = match prop {
                "C07" => f.short + f.intr > 0 || bc.bufcap.is_some() || !bc.prefill.is_empty(),
                "C01" => bc.task.registry.is_some() || f.short + f.intr > 0,
                _ => rejected > 0,
            };
            let steps = run.results.len() as u64 + run.sink.ev_idx;
            Outcome {
                digest: run.digest(),
                nontrivial,
                violation,
                explicit: Case::Build(explicit_build(bc, run.sink.recorded_plan())),
                tags,
                steps,
                detail: serde_json::Value::Null,
            }
        }
        ("C01", Case::Delta(dc)) => {
            let run = crate::mem::run_delta_boundary(dc);
            let tags = vec![
                ("probe.root_transition_delta_exactly_at_target", run.short),
                ("big.bytes", run.bytes),
            ];
            Outcome {
                digest: run.digest,
                nontrivial: true,
                violation: run.violation,
                explicit: case.clone(),
                tags,
                steps: run.bytes / 12,
                detail: serde_json::json!({"target_delta": dc.target, "measured_delta": run.intr, "file_bytes": run.bytes}),
            }
        }
        ("C07", Case::Long(lc)) => {
            let run = crate::multi::run_long(lc);
            Outcome {
                digest: run.digest,
                nontrivial: true,
                violation: run.violation,
                explicit: case.clone(),
                tags: vec![
                    ("probe.c07_long_build_interrupted_before_every_write", 1),
                    ("sink.interrupted", run.interrupted),
                    ("sink.short_write", run.shorts),
                    ("sink.full_write", run.write_calls - run.interrupted - run.shorts),
                ],
                steps: lc.n + run.write_calls,
                detail: serde_json::json!({"keys": lc.n, "interrupted_returns_in_this_one_build": run.interrupted, "write_calls": run.write_calls, "bytes": run.bytes}),
            }
        }
        ("C15", Case::Epoch(ec)) => {
            let run = crate::multi::run_epoch(ec);
            Outcome {
                digest: run.digest,
                nontrivial: true,
                violation: run.violation,
                explicit: case.clone(),
                tags: vec![("probe.c15_same_sequence_before_and_after_many_builders", 1), ("c15.empty_builders_in_between", ec.between)],
                steps: ec.between + 2,
                detail: serde_json::Value::Null,
            }
        }
        ("C06", Case::FromIter(fc)) => {
            let run = crate::multi::run_from_iter(fc);
            let violation = crate::multi::check_from_iter(fc, &run);
            let rejected = !run.result.is_ok();
            Outcome {
                digest: run.digest,
                nontrivial: rejected,
                violation,
                explicit: case.clone(),
                tags: vec![("history.rejected_calls", rejected as u64), ("history.from_iter_calls", 1)],
                steps: 1 + run.pulled as u64,
                detail: serde_json::Value::Null,
            }
        }
        ("C08", Case::FromIter(fc)) => {
            // an FST obtained through an entry point that drives a builder
            // on the caller's behalf (from_iter, Default): A(i) all the same
            let run = crate::multi::run_from_iter(fc);
            let violation = match (&run.result, &run.bytes) {
                (crate::front::Res::Panic(m), _) => Some(Violation { oracle: "C08.panic".into(), observed: m.clone() }),
                (_, Some(bytes)) => check_footer("C08", bytes).or_else(|| unaligned_verify("C08", bytes)).or_else(|| {
                    let p = crate::restart::probe(bytes);
                    if p.verify_ok != Some(true) {
                        Some(Violation {
                            oracle: "C08.A1.fresh_build_does_not_verify".into(),
                            observed: format!("{}: {} {}", fc.entry.name(), p.open_err, p.verify_err),
                        })
                    } else {
                        None
                    }
                }),
                _ => None,
            };
            Outcome {
                digest: run.digest,
                nontrivial: true,
                violation,
                explicit: case.clone(),
                tags: vec![("entry.from_iter_or_default_artifacts", 1)],
                steps: 1 + run.pulled as u64,
                detail: serde_json::Value::Null,
            }
        }
        ("C11", Case::Build(bc)) => {
            let run = run_build(bc);
            // the fault-free twin is the same for every fault position of a
            // workload: keep the last one per thread
            thread_local! {
                static DRY: std::cell::RefCell<Option<(BuildCase, std::rc::Rc<crate::build::BuildRun>)>> = std::cell::RefCell::new(None);
            }
            let dry_case = dry_of(bc);
            let dry = DRY.with(|d| {
                let mut d = d.borrow_mut();
                match &*d {
                    Some((c, r)) if *c == dry_case => r.clone(),
                    _ => {
                        let r = std::rc::Rc::new(run_build(&dry_case));
                        *d = Some((dry_case.clone(), r.clone()));
                        r
                    }
                }
            });
            let violation = check_c11(bc, &run, &dry);
            let mut tags = sink_tags(&run, bc);
            let fired = run.sink.first_fault_event.is_some();
            if fired {
                let call = run.sink.first_fault_op.unwrap_or(0);
                if call == 0 {
                    tags.push(("probe.fault_inside_constructor", 1));
                } else if call as usize == bc.task.ops.len() + 1 {
                    tags.push(("probe.fault_inside_finish", 1));
                } else if call == u32::MAX {
                    tags.push(("probe.fault_only_in_drop", 1));
                } else {
                    tags.push(("probe.fault_inside_insert", 1));
                }
            }
            let steps = run.results.len() as u64 + run.sink.ev_idx;
            Outcome {
                digest: run.digest(),
                nontrivial: fired,
                violation,
                explicit: Case::Build(explicit_build(bc, run.sink.recorded_plan())),
                tags,
                steps,
                detail: serde_json::Value::Null,
            }
        }
        ("C08", Case::Build(bc)) => {
            // A(i) through a non-trivial sink: whatever a builder reports as
            // finished must carry the standard checksum and verify.
            let run = run_build(bc);
            let mut violation = None;
            if let Some(crate::front::Res::Ok) = run.finish_result() {
                let bytes = &run.sink.durable[run.sink.prefill..run.durable_at_return.max(run.sink.prefill)];
                violation = check_footer("C08", bytes).or_else(|| unaligned_verify("C08", bytes)).or_else(|| {
                    let p = crate::restart::probe(bytes);
                    if p.verify_ok != Some(true) {
                        Some(Violation {
                            oracle: "C08.A1.finished_build_does_not_verify".into(),
                            observed: format!("{} {} {}", p.open_err, p.verify_err, p.panic.unwrap_or_default()),
                        })
                    } else {
                        None
                    }
                });
            }
            let f = &run.sink.fired;
            let nontrivial = f.short + f.intr > 0 || bc.bufcap.is_some();
            let tags = sink_tags(&run, bc);
            let steps = run.results.len() as u64 + run.sink.ev_idx;
            Outcome {
                digest: run.digest(),
                nontrivial,
                violation,
                explicit: Case::Build(explicit_build(bc, run.sink.recorded_plan())),
                tags,
                steps,
                detail: serde_json::Value::Null,
            }
        }
        ("C08", Case::Payload(pc)) => {
            let run = run_payload(pc);
            let violation = check_payload(pc, &run);
            let tags = vec![
                ("sink.short_write", run.fired.short),
                ("sink.interrupted", run.fired.intr),
                ("probe.partial_accept_ge_16_bytes", run.big_chunks),
                ("payload.runs", 1),
            ];
            let explicit = PayloadCase { plan: run.plan.clone(), random: None, ..pc.clone() };
            Outcome {
                digest: run.digest,
                nontrivial: run.fired.short + run.fired.intr > 0 || pc.chunk_lens.len() > 0,
                violation,
                explicit: Case::Payload(explicit),
                tags,
                steps: 1 + run.fired.short + run.fired.intr + run.fired.full,
                detail: serde_json::Value::Null,
            }
        }
        ("C08", Case::Corrupt(cc)) | ("C20", Case::Corrupt(cc)) => {
            let cc = explicit_corrupt(cc);
            let (mut orig, bytes) = match mutated(&cc) {
                Ok(x) => x,
                Err(e) => harness_error(e),
            };
            if prop == "C08" {
                if let Base::Survivor(_) = &cc.base {
                    // judged against the artifact the build was producing
                    orig = orig_complete(&cc);
                }
            }
            let violation = if prop == "C08" {
                if cc.muts.is_empty() && matches!(cc.base, Base::Build(_)) {
                    check_footer("C08", &bytes).or_else(|| unaligned_verify("C08", &bytes)).or_else(|| {
                        let p = crate::restart::probe(&bytes);
                        if p.verify_ok != Some(true) {
                            Some(Violation {
                                oracle: "C08.A1.fresh_build_does_not_verify".into(),
                                observed: format!("{} {}", p.open_err, p.verify_err),
                            })
                        } else {
                            None
                        }
                    })
                } else {
                    check_c08b_bytes(&orig, &bytes, true)
                }
            } else {
                check_c20_bytes(&bytes)
            };
            let mut d = Digest::new();
            d.bytes(&bytes);
            let p = crate::restart::probe(&bytes);
            d.u64(p.opened as u64);
            d.u64(p.verify_ok.map(|x| x as u64 + 1).unwrap_or(0));
            let mut tags = vec![("restart.reopened", 1)];
            for m in &cc.muts {
                tags.push((
                    match m {
                        crate::restart::Mutation::Subst { .. } => "corrupt.byte_substitution",
                        crate::restart::Mutation::Burst { .. } => "corrupt.burst_2_to_4_bytes",
                        crate::restart::Mutation::Truncate { .. } => "corrupt.truncation",
                        crate::restart::Mutation::Tail { .. } => "corrupt.garbage_footer",
                        crate::restart::Mutation::Version { .. } => "corrupt.version_field",
                        crate::restart::Mutation::FixChecksum => "corrupt.checksum_recomputed_over_garbage",
                        crate::restart::Mutation::Downgrade { .. } => "corrupt.downgraded_to_version_1_or_2",
                        crate::restart::Mutation::TrailerFrom { .. } => "corrupt.trailer_replaced_by_related_value",
                        crate::restart::Mutation::PadTo { .. } => "corrupt.file_padded_to_4GiB_and_more",
                    },
                    1,
                ));
            }
            match &cc.base {
                Base::Raw(b) => {
                    tags.push(("corrupt.arbitrary_bytes", 1));
                    if b.len() < 36 {
                        tags.push(("probe.input_shorter_than_36_bytes", 1));
                    }
                }
                Base::Survivor(bc) => {
                    if let Some((_, torn)) = bc.plan.crash {
                        tags.push(("sink.crash", 1));
                        if torn > 0 {
                            tags.push(("sink.crash_with_torn_write", 1));
                        }
                        if bc.bufcap.is_some() {
                            tags.push(("sink.crash_behind_bufwriter_buffer_lost", 1));
                        }
                        if bytes.len() < 16 {
                            tags.push(("probe.crash_inside_header", 1));
                        }
                    }
                    if !bc.plan.flips.is_empty() {
                        tags.push(("sink.inflight_flip", 1));
                    }
                }
                Base::Build(_) => {}
            }
            if p.opened {
                tags.push(("restart.open_ok", 1));
            }
            if p.verify_ok == Some(true) {
                tags.push(("restart.verify_ok", 1));
            }
            if matches!(cc.base, Base::Survivor(_)) {
                tags.push(("restart.crash_survivor", 1));
                if p.opened && p.verify_ok == Some(true) && bytes != orig_complete(&cc) {
                    tags.push(("probe.torn_file_that_verifies", 1));
                }
            }
            Outcome {
                digest: d.finish(),
                nontrivial: !cc.muts.is_empty() || !matches!(cc.base, Base::Build(_)),
                violation,
                explicit: Case::Corrupt(cc),
                tags,
                steps: 3,
                detail: serde_json::Value::Null,
            }
        }
        ("C15", Case::Multi(mc)) => {
            let run = run_multi(mc);
            let violation = check_multi(mc, &run);
            let mut explicit = mc.clone();
            explicit.schedule = run.schedule.clone();
            explicit.sched_seed = None;
            for (i, t) in explicit.tasks.iter_mut().enumerate() {
                if let MKind::Sink(bc) = &t.kind {
                    if let Some(r) = &run.sink_runs[i] {
                        *t = MTask {
                            kind: MKind::Sink(explicit_build(bc, r.sink.recorded_plan())),
                            same: t.same,
                        };
                    }
                }
            }
            let tags = vec![
                ("sched.context_switches", run.switches),
                ("world.tasks", mc.tasks.len() as u64),
                ("world.mem_entry_points", mc.tasks.iter().filter(|t| matches!(t.kind, MKind::Mem(_))).count() as u64),
                ("world.disturbers", mc.tasks.iter().filter(|t| !t.same).count() as u64),
            ];
            Outcome {
                digest: run.digest,
                nontrivial: run.switches > 0 && mc.tasks.len() > 1,
                violation,
                explicit: Case::Multi(explicit),
                tags,
                steps: run.schedule.len() as u64,
                detail: serde_json::Value::Null,
            }
        }
        ("C01", Case::MemBuild(mc)) | ("C08", Case::MemBuild(mc)) => {
            let run = crate::mem::run_big_roundtrip(prop, mc);
            let tags = vec![
                ("sink.short_write", run.short),
                ("sink.interrupted", run.intr),
                ("big.keys", mc.fam.n),
                ("big.bytes", run.bytes),
                ("probe.file_larger_than_16MiB_4_byte_deltas", (run.bytes > (1 << 24)) as u64),
                ("probe.file_larger_than_64KiB_3_byte_deltas", (run.bytes > (1 << 16)) as u64),
            ];
            Outcome {
                digest: run.digest,
                nontrivial: true,
                violation: run.violation,
                explicit: case.clone(),
                tags,
                steps: 2 * mc.fam.n,
                detail: serde_json::Value::Null,
            }
        }
        ("C11", Case::MemBuild(mc)) => {
            // `every` doubles as the selector: 0 = first flush fails,
            // n > 0 = write call n fails
            let at = if mc.every == 0 { None } else { Some(mc.every as usize) };
            let run = crate::mem::run_big_fault(mc, at);
            let tags = vec![
                ("sink.short_write", run.short),
                ("sink.interrupted", run.intr),
                (if at.is_none() { "sink.flush_error" } else { "sink.hard_error" }, 1),
                ("probe.fault_in_multi_MiB_build", (run.bytes > (1 << 20)) as u64),
                ("probe.c11_ok0_on_a_3_to_7_byte_write_far_into_a_set", (mc.rejects == 1 && run.zero > 0) as u64),
            ];
            Outcome {
                digest: run.digest,
                nontrivial: true,
                violation: run.violation,
                explicit: case.clone(),
                tags,
                steps: mc.fam.n,
                detail: serde_json::Value::Null,
            }
        }
        ("C13", Case::MemBuild(mc)) => {
            let run = run_mem_build(mc);
            let tags = vec![
                ("mem.checkpoints", run.checkpoints),
                ("mem.keys_inserted", mc.fam.n),
                ("mem.bytes_emitted", run.bytes_emitted),
            ];
            Outcome {
                digest: run.digest,
                nontrivial: true,
                violation: run.violation.clone(),
                explicit: case.clone(),
                tags,
                steps: mc.fam.n,
                detail: serde_json::json!({
                    "keys": mc.fam.n, "map": mc.map, "cache_geometry": mc.registry.map(|r| vec![r.0, r.1]),
                    "fanout": mc.fam.fanout, "key_length": mc.fam.keylen, "prefix_pairs": mc.fam.pairs, "leaf_fan": mc.fam.leaf_fan, "decreasing_values": mc.fam.decreasing,
                    "section_vocabulary": mc.fam.sec_vocab, "section_parents": mc.fam.sec_parents, "rejected_inserts_after_each_key": mc.rejects, "one_run_of_rejected_inserts_at_half_way": mc.reject_run, "builder_handed_back_and_forth_between_threads": mc.threads, "prologue": mc.prologue,
                    "bound_bytes": run.bound, "live_after_new": run.after_new,
                    "max_live_at_checkpoints": run.max_live,
                    "live_at_first_tenth": run.live_at_tenth, "live_at_end": run.live_at_end,
                    "growth_over_last_nine_tenths": run.live_at_end - run.live_at_tenth,
                    "bytes_emitted": run.bytes_emitted, "allocations": run.allocs,
                    "legal_inserts_refused_by_builder": run.refused, "cut_short_by_builder_error": run.cut_short,
                }),
            }
        }
        ("C14", Case::MemRead(mc)) => {
            let run = run_mem_read(mc);
            let emitted: u64 = run.large.iter().map(|m| m.emitted).sum();
            let tags = vec![
                ("mem.ops_measured", (run.small.len() + run.large.len()) as u64),
                ("mem.items_traversed", emitted),
            ];
            Outcome {
                digest: run.digest,
                nontrivial: true,
                violation: run.violation.clone(),
                explicit: case.clone(),
                tags,
                steps: emitted,
                detail: serde_json::json!({
                    "n_small": mc.n_small, "n_large": mc.n_large, "k": mc.k, "fanout": mc.fanout, "key_length": mc.keylen,
                    "ops": run.small.iter().zip(run.large.iter()).map(|(s, l)| serde_json::json!({
                        "op": s.name, "bound_bytes": crate::mem::read_bound(&s.name, mc.keylen),
                        "peak_small": s.peak, "peak_large": l.peak,
                        "allocs_small": s.allocs, "allocs_large": l.allocs,
                        "emitted_small": s.emitted, "emitted_large": l.emitted,
                    })).collect::<Vec<_>>(),
                }),
            }
        }
        _ => harness_error(format!("no executor for property {} and case kind {}", prop, case.kind())),
    }
}

/// A fresh build must verify wherever its bytes happen to lie in memory.
pub fn unaligned_verify(pid: &str, bytes: &[u8]) -> Option<Violation> {
    let (res, panic) = crate::restart::probe_unaligned(bytes);
    if let Some(m) = panic {
        return Some(Violation { oracle: format!("{}.verify_panics_on_fresh_build", pid), observed: m });
    }
    if res.iter().any(|r| *r != Some(true)) {
        return Some(Violation {
            oracle: format!("{}.verify_rejects_fresh_build", pid),
            observed: format!("open+verify of the same {} bytes at addresses 1,5,8,15 mod 16 gave {:?}", bytes.len(), res),
        });
    }
    None
}

fn orig_complete(cc: &CorruptCase) -> Vec<u8> {
    // the complete artifact the crashed build would have produced
    match &cc.base {
        Base::Survivor(bc) => crate::build::reference_build(&bc.task).1.unwrap_or_default(),
        b => base_bytes(b).unwrap_or_default(),
    }
}

/// Make a survivor base explicit (its build may use a random sink).
pub fn explicit_corrupt(cc: &CorruptCase) -> CorruptCase {
    match &cc.base {
        Base::Survivor(bc) if bc.random.is_some() => {
            let run = run_build(bc);
            CorruptCase {
                base: Base::Survivor(explicit_build(bc, run.sink.recorded_plan())),
                muts: cc.muts.clone(),
            }
        }
        _ => cc.clone(),
    }
}

#[allow(dead_code)]
fn _t(_: MultiCase) {}
