//! Reference models: trivial inside, same observable interface.

use std::collections::BTreeMap;

/// Bitwise CRC-32C (Castagnoli, reflected polynomial 0x82F63B78), written
/// from the definition and independent of the crate's generated tables.
pub fn crc32c(data: &[u8]) -> u32 {
    let mut crc: u32 = !0;
    for &b in data {
        crc ^= b as u32;
        for _ in 0..8 {
            let lsb = crc & 1;
            crc >>= 1;
            if lsb != 0 {
                crc ^= 0x82F6_3B78;
            }
        }
    }
    !crc
}

/// Table-driven variant of the same definition (table built here at first
/// use from the bitwise routine), for large artifacts.
pub fn crc32c_fast(data: &[u8]) -> u32 {
    use std::sync::OnceLock;
    static T: OnceLock<[u32; 256]> = OnceLock::new();
    let t = T.get_or_init(|| {
        let mut t = [0u32; 256];
        for i in 0..256u32 {
            let mut c = i;
            for _ in 0..8 {
                c = if c & 1 != 0 { (c >> 1) ^ 0x82F6_3B78 } else { c >> 1 };
            }
            t[i as usize] = c;
        }
        t
    });
    let mut crc: u32 = !0;
    for &b in data {
        crc = t[((crc ^ b as u32) & 0xff) as usize] ^ (crc >> 8);
    }
    !crc
}

/// Snappy-style masking: rotate right by 15, add a constant.
pub fn mask(crc: u32) -> u32 {
    crc.rotate_right(15).wrapping_add(0xA282_EAD8)
}

pub fn masked_crc32c(data: &[u8]) -> u32 {
    mask(crc32c_fast(data))
}

/// Known-answer self test; a harness error (not a violation) if it fails.
pub fn self_test() -> Result<(), String> {
    if crc32c(b"123456789") != 0xE306_9283 {
        return Err("bitwise crc32c known answer failed".into());
    }
    if crc32c_fast(b"123456789") != 0xE306_9283 {
        return Err("table crc32c known answer failed".into());
    }
    if crc32c(b"") != 0 {
        return Err("crc32c of empty input".into());
    }
    let mut x = Vec::new();
    for i in 0..1000u32 {
        x.push((i * 7 + 3) as u8);
        if crc32c(&x) != crc32c_fast(&x) {
            return Err("bitwise and table reference disagree".into());
        }
    }
    // 32 zero bytes: RFC 3720 B.4 test vector
    if crc32c(&[0u8; 32]) != 0x8A91_36AA {
        return Err("crc32c rfc3720 zeros".into());
    }
    if crc32c(&[0xffu8; 32]) != 0x62A8_AB43 {
        return Err("crc32c rfc3720 ones".into());
    }
    Ok(())
}

/// What the builder contract says a call must return.
#[derive(Clone, Debug, PartialEq, Eq)]
pub enum Expect {
    Ok,
    /// the caller's key source panicked inside the bulk call (injected)
    CallerPanic,
    Dup { got: Vec<u8> },
    Ooo { prev: Vec<u8>, got: Vec<u8> },
}

/// Reference model of the ordering contract of a builder.
#[derive(Clone, Debug, Default)]
pub struct Contract {
    pub last: Option<Vec<u8>>,
    /// accepted entries in acceptance order (set repeats are not re-added)
    pub accepted: Vec<(Vec<u8>, u64)>,
}

impl Contract {
    pub fn new() -> Contract {
        Contract::default()
    }

    /// `insert(k, v)` on a map / raw builder: strictly greater.
    pub fn insert(&mut self, k: &[u8], v: u64) -> Expect {
        if let Some(last) = &self.last {
            if k == &last[..] {
                return Expect::Dup { got: k.to_vec() };
            }
            if k < &last[..] {
                return Expect::Ooo { prev: last.clone(), got: k.to_vec() };
            }
        }
        self.last = Some(k.to_vec());
        self.accepted.push((k.to_vec(), v));
        Expect::Ok
    }

    /// `insert(k)` on a set / raw `add(k)`: greater or equal, repeat = no-op.
    pub fn add(&mut self, k: &[u8]) -> Expect {
        if let Some(last) = &self.last {
            if k < &last[..] {
                return Expect::Ooo { prev: last.clone(), got: k.to_vec() };
            }
            if k == &last[..] {
                return Expect::Ok;
            }
        }
        self.last = Some(k.to_vec());
        self.accepted.push((k.to_vec(), 0));
        Expect::Ok
    }

    pub fn as_map(&self) -> BTreeMap<Vec<u8>, u64> {
        self.accepted.iter().cloned().collect()
    }
}
