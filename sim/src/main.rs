//! fstsim — Engine A: deterministic simulation of the fst builders against a
//! simulated file, a counting allocator and a seeded call-level scheduler.

mod alloc;
mod build;
mod case;
mod driver;
mod exec;
mod front;
mod gen;
mod mem;
mod minimise;
mod model;
mod multi;
mod oracle;
mod payload;
mod restart;
mod rng;
mod scen;
mod sink;

use serde_json::json;

use driver::{conclude, run_batch, Cfg, EvidenceMeta, Scenario, Tier};

#[global_allocator]
static GLOBAL: alloc::SimAlloc = alloc::SimAlloc;

const REAL: [&str; 6] = [
    "fst::raw::Builder / MapBuilder / SetBuilder and every front end (from_iter, extend_iter, extend_stream)",
    "CountingWriter, CRC-32C code and tables, node encoders, registry (node cache), bytes packing",
    "std::io::BufWriter (when the buffer layer is drawn)",
    "Fst::new / Map::new / Set::new, accessors, verify, stream/range/search/set operations (restart and read-back side)",
    "std::io::Write::write_all retry loop (Interrupted, short writes)",
    "fst built twice: with overflow checks and debug assertions on (first pass) and with both off (second pass, profile `plain`)",
];
const STUBS: [&str; 4] = [
    "SimSink: the file (acceptance lengths, Interrupted, errors, Ok(0), flush results, crash point, at-rest and in-flight corruption) is a model of a device, not a kernel",
    "Tap: harness recorder between builder and buffer layer",
    "SimAlloc: counting wrapper around the system allocator (allocation failure is not injectable in-process: it aborts)",
    "call-level task scheduler (C15): tasks are stepped between public calls, not pre-empted inside them (the library has no shared state to race on)",
];

struct Plan {
    n: u64,
    scenario: Scenario,
    meta: EvidenceMeta,
    extra: serde_json::Value,
}

fn plan_for(cfg: &Cfg) -> Plan {
    let common_assume = |more: &[&str]| -> Vec<String> {
        let mut v: Vec<String> = vec![
            "sampling, not proof: a clean batch is evidence over the explored runs only".into(),
            "the simulated file only shows behaviours io::Write permits (n >= 1 for non-empty buffers unless Ok(0) is the injected fault; finite Interrupted bursts)".into(),
        ];
        v.extend(more.iter().map(|s| s.to_string()));
        v
    };
    match &cfg.prop[..] {
        "C07" => {
            let (s, r) = scen::c07_sizes(cfg);
            Plan {
                n: s + r,
                scenario: scen::c07,
                meta: EvidenceMeta {
                    level: "fault_enumeration",
                    rule: format!("run index i < {s}: sweep workload (<= 10 keys) re-run under every fixed cap 1..16 and with one short write (1 and len-1 bytes) or one Interrupted at every sink write index; i >= {s}: random workload (<= 40 keys, 1/16 up to 400) x random benign sink shape x BufWriter capacity x prefill. Non-trivial = at least one short write or Interrupted fired, or a BufWriter layer or prefill was present; distinct = distinct 64-bit digest of (call results, byte counters, sink event log, durable bytes)."),
                    assumptions: common_assume(&["reference = the same ops built by the real builder into a Vec<u8>"]),
                    real: REAL.to_vec(),
                    stubs: STUBS.to_vec(),
                    exhaustive: false,
                },
                extra: json!({"sweep_workloads": s, "random_runs": r}),
            }
        }
        "C01" => {
            let (b, r) = scen::c01_sizes(cfg);
            let r = r + scen::C01_EXHAUSTIVE;
            Plan {
                n: b + r,
                scenario: scen::c01,
                meta: EvidenceMeta {
                    level: "exploration",
                    rule: format!("run index i < {b}: large generated family (1e5 keys quick / 3e6 thorough) streamed through short writes and compared entry by entry after reopening; the next 16384 indices: every map over the key universe {{\"\",a,aa,ab,b,ba}} with values in {{0,1,256}} x 4 small cache geometries; then: random legal history (front end x call grouping x key classes x value style) x cache geometry knob x benign sink. Non-trivial = a non-default cache geometry was set or a short write/Interrupted fired; distinct by log digest."),
                    assumptions: common_assume(&["model = ordered map of the accepted (key, value) pairs; key/value space is ordinary seeded generation"]),
                    real: REAL.to_vec(),
                    stubs: STUBS.to_vec(),
                    exhaustive: false,
                },
                extra: json!({"big_runs": b, "random_runs": r}),
            }
        }
        "C06" => {
            let (e, r) = scen::c06_sizes(cfg);
            Plan {
                n: e + r,
                scenario: scen::c06,
                meta: EvidenceMeta {
                    level: "exploration",
                    rule: format!("run index i < {e}: exhaustive call histories (all sequences of length <= {} over the keys \"\",a,aa,ab,b for each of {} front-end variants: map/set/raw single inserts, raw add, extend_iter, extend_stream, and the one-call entry points Set::from_iter, Map::from_iter, Fst::from_iter_set, Fst::from_iter_map); i >= {e}: random histories of 1..200 calls with an error rate of 0-60% aimed at each rejection class (duplicate, smaller, proper prefix, empty), bulk calls with a rejected item in the middle, benign sink schedules. Non-trivial = at least one call was rejected; distinct by log digest.", scen::c06_exhaustive_len(cfg), scen::C06_VARIANTS),
                    assumptions: common_assume(&["reference = ordering-contract model (last key, accepted list) + clean rebuild of exactly the accepted sequence"]),
                    real: REAL.to_vec(),
                    stubs: STUBS.to_vec(),
                    exhaustive: false,
                },
                extra: json!({"exhaustive_small_scope_histories": e, "random_histories": r}),
            }
        }
        "C11" => {
            let n = scen::c11_sizes(cfg);
            Plan {
                n,
                scenario: scen::c11,
                meta: EvidenceMeta {
                    level: "fault_enumeration",
                    rule: "per workload (<= 12 keys; layering = direct / short writes / BufWriter by index mod 3): a fault-free dry run measures the sink calls, then EVERY sink call index (writes and flushes, up to 400) is made the failing call x {Other, BrokenPipe, PermissionDenied, StorageFull, WouldBlock, TimedOut, UnexpectedEof, Ok(0)} x {transient, sticky}. Non-trivial = the fault actually fired; distinct by log digest.".into(),
                    assumptions: common_assume(&["the simulated caller stops issuing calls at the first Err(Io) (use of a builder after an I/O error is outside the property)", "one injected fault per run (sticky = it persists)"]),
                    real: REAL.to_vec(),
                    stubs: STUBS.to_vec(),
                    exhaustive: false,
                },
                extra: json!({"workloads": n}),
            }
        }
        "C20" => {
            let (s, r) = scen::c20_sizes(cfg);
            Plan {
                n: s + r,
                scenario: scen::c20,
                meta: EvidenceMeta {
                    level: "fault_enumeration",
                    rule: format!("run index i < {s}: sweep workload, crash at EVERY sink event x survivor kinds (durable prefix; torn in-flight write of 1, half, len-1, len bytes; BufWriter buffer lost), reopened with Fst/Map/Set::new over &[u8], Vec and Cow, then len/is_empty/fst_type/size/as_bytes/verify/map_data; i >= {s}: random crash point + corruption, mutated complete artifacts (substitution, burst, truncation, garbage footer, version field), boundary header/footer strings of length 0..64, random strings of length 0..200. Non-trivial = anything but an unmodified complete artifact; distinct by digest of (survivor bytes, open result, verify result). Plus a compile of the library with -F unsafe_code (a lint, not a simulated run)."),
                    assumptions: common_assume(&["only open, metadata accessors and verify are called on survivors: the property allows queries on garbage to panic"]),
                    real: REAL.to_vec(),
                    stubs: STUBS.to_vec(),
                    exhaustive: false,
                },
                extra: json!({"sweep_workloads": s, "random_runs": r}),
            }
        }
        "C08" => {
            let (f, p, c) = scen::c08_sizes(cfg);
            Plan {
                n: f + p + c,
                scenario: scen::c08,
                meta: EvidenceMeta {
                    level: "fault_enumeration",
                    rule: format!("run index i < {f}: artifact <= 160 bytes, footer vs independent bitwise CRC-32C + verify, then EVERY byte position x EVERY other value and sampled 2-4 byte bursts at every offset not straddling the checksum boundary; next {p} indices: random payload (0..4096 bytes, biased to 15/16/17-byte multiples) pushed through the real counting writer in random caller chunks into a sink whose acceptance schedule is the chunking; remaining {c}: sampled substitution / bit flip / burst on artifacts of up to 200 keys and flips of durable bytes while the build is running. Distinct = distinct log digests + (artifact, position, value) triples of the exhaustive sweeps, which are distinct by construction per distinct artifact."),
                    assumptions: common_assume(&["bursts straddling the data/checksum boundary are excluded: a 32-bit sum cannot promise anything there", "truncation is not judged here (the statement speaks of altered bytes)"]),
                    real: REAL.to_vec(),
                    stubs: STUBS.to_vec(),
                    exhaustive: false,
                },
                extra: json!({"exhaustive_files": f, "payload_runs": p, "sampled_corruption_runs": c}),
            }
        }
        "C15" => {
            let n = scen::c15_sizes(cfg);
            Plan {
                n,
                scenario: scen::c15,
                meta: EvidenceMeta {
                    level: "exploration",
                    rule: "one world per run index: 2-6 builder tasks receive the same accepted sequence through different front ends (raw/set/map builders, add/insert, extend_iter, extend_stream from a vector / an FST / a range / the union of parts, from_iter and memory() entry points), call groupings, sink schedules and BufWriter capacities; 0-2 disturber tasks build unrelated data in between; a seeded scheduler interleaves all tasks call by call. Oracle: byte identity of all outputs. Non-trivial = at least one context switch between tasks; distinct by digest of (schedule, outputs). The same run indices are then re-executed in separate processes with 1 and 16 workers and all per-index digests compared.".into(),
                    assumptions: common_assume(&["tasks of one world share one cache geometry (bytes are a function of the geometry too; the shipped geometry is in the mix)", "interleaving is at public-call granularity: the library has no shared mutable state, so pre-emption inside a call cannot be observed by another task"]),
                    real: REAL.to_vec(),
                    stubs: STUBS.to_vec(),
                    exhaustive: false,
                },
                extra: json!({"worlds": n}),
            }
        }
        "C13" => {
            let n = scen::c13_cases(cfg).len() as u64;
            Plan {
                n,
                scenario: scen::c13,
                meta: EvidenceMeta {
                    level: "exploration",
                    rule: "each run streams N keys (bounded fan-out F and length L; counter prefix + PRNG suffix so that almost every node is new) through a real Set/MapBuilder into a discarding sink with short writes; live requested heap of the thread is compared with B(geometry, F, L) every 1000 inserts. Distinct = distinct (N, kind, geometry, F, L) configurations with distinct measurement digests.".into(),
                    assumptions: vec![
                        "heap = bytes requested from the global allocator by the building thread (allocator overhead excluded)".into(),
                        "bound B = (heap allocated by the constructor, measured) + cells*24*max(4,2F) + (L+2)*(64+24*max(4,2F)) + 4L + 256KiB: every cache cell may grow its transition vector to 2F entries, the unfinished stack holds one node per key byte; for the shipped geometry the number of cells is estimated from the constructor allocation; deliberately loose by a constant factor".into(),
                    ],
                    real: REAL.to_vec(),
                    stubs: STUBS.to_vec(),
                    exhaustive: false,
                },
                extra: json!({"configurations": n}),
            }
        }
        "C14" => {
            let n = scen::c14_cases(cfg).len() as u64;
            Plan {
                n,
                scenario: scen::c14,
                meta: EvidenceMeta {
                    level: "exploration",
                    rule: "each run builds k FSTs at two sizes (N_small, N_large) from the same key family and measures, under the counting allocator, open + 5000 point look-ups on borrowed bytes (must allocate nothing) and the peak heap of stream/keys/values/range/search (Subsequence, StartsWith, Levenshtein, Complement)/union/intersection/difference/symmetric_difference over k = 2,4,8 inputs and mixed stream kinds; peak must stay under a bound in (k, L) and must not grow from N_small to N_large by more than one doubling step. Distinct = distinct configurations with distinct measurement digests.".into(),
                    assumptions: vec![
                        "heap = bytes requested from the global allocator by the measuring thread".into(),
                        "per-item allocate-and-free does not raise the peak and is not judged (the property is about heap held)".into(),
                    ],
                    real: REAL.to_vec(),
                    stubs: STUBS.to_vec(),
                    exhaustive: false,
                },
                extra: json!({"configurations": n}),
            }
        }
        p => exec::harness_error(format!("property {} is not served by engine A", p)),
    }
}

fn env_u64(k: &str) -> Option<u64> {
    std::env::var(k).ok().and_then(|s| s.trim().parse().ok())
}

fn cfg_from_env(prop: &str, args: &[String]) -> Cfg {
    let mut tier = match std::env::var("VERIF_TIER").ok().as_deref() {
        Some("thorough") => Tier::Thorough,
        _ => Tier::Quick,
    };
    let mut workers = env_u64("VERIF_WORKERS").unwrap_or(16) as usize;
    let mut seed = env_u64("VERIF_SEED").unwrap_or(1);
    let mut scale: f64 = std::env::var("VERIF_SCALE").ok().and_then(|s| s.parse().ok()).unwrap_or(1.0);
    let mut i = 0;
    while i < args.len() {
        match &args[i][..] {
            "--tier" => {
                i += 1;
                tier = if args.get(i).map(|s| &s[..]) == Some("thorough") { Tier::Thorough } else { Tier::Quick };
            }
            "--workers" => {
                i += 1;
                workers = args[i].parse().unwrap_or(16);
            }
            "--seed" => {
                i += 1;
                seed = args[i].parse().unwrap_or(1);
            }
            "--scale" => {
                i += 1;
                scale = args[i].parse().unwrap_or(1.0);
            }
            _ => {}
        }
        i += 1;
    }
    let verif_dir = std::env::var("VERIF_DIR").unwrap_or_else(|_| "/verif".to_string());
    let known = driver::load_known(&verif_dir);
    let known_oracles =
        known.findings.iter().filter(|f| f.0 == prop).map(|f| f.1.clone()).collect();
    Cfg { prop: prop.to_string(), seed, tier, workers, scale, verif_dir, known_oracles }
}

/// Per-index digests of the first `n` run indices, for determinism proofs.
fn digests(cfg: &Cfg, n: u64) -> Vec<(u64, u64)> {
    let plan = plan_for(cfg);
    let n = std::cmp::min(n, plan.n);
    let res = run_batch(cfg, n, plan.scenario, true);
    res.stats.index_digests
}

fn main() {
    let args: Vec<String> = std::env::args().collect();
    if args.len() < 2 {
        eprintln!("usage: fstsim run <PROP> [--tier quick|thorough] | replay <file> | digests <PROP> <n> | selftest");
        std::process::exit(2);
    }
    if args[1] == "c14-cold" {
        // a process whose FIRST contact with the library is opening bytes it
        // did not build (see mem::cold_child); nothing else may run before it
        use std::io::Read;
        let mut input = Vec::new();
        std::io::stdin().read_to_end(&mut input).expect("harness: read stdin");
        println!("{}", mem::cold_child(&input));
        return;
    }
    if args[1] == "c20-env" {
        use std::io::Read;
        let mut input = Vec::new();
        std::io::stdin().read_to_end(&mut input).expect("harness: read stdin");
        front::install_quiet_panic_hook();
        println!("{}", restart::env_child(args.get(2).map(|s| &s[..]).unwrap_or("stack"), input));
        return;
    }
    if args[1] == "c15-fingerprint" {
        // length and digest of a few large in-memory builds with the shipped
        // cache geometry (large enough for cache rows to overflow); `check`
        // compares what the two build profiles of this program print
        let seed: u64 = args.get(2).and_then(|s| s.parse().ok()).unwrap_or(1);
        for (n, valued) in [(300_000u64, false), (300_000, true), (60_000, true), (1_000, false)] {
            let mut key = Vec::new();
            let mut b = fst::raw::Builder::memory();
            let mut sb = fst::SetBuilder::memory();
            let mut mb = fst::MapBuilder::memory();
            for j in 0..n {
                let val = multi::long_key(seed, j, &mut key);
                if valued {
                    b.insert(&key, val).expect("harness: fingerprint build");
                    mb.insert(&key, val).expect("harness: fingerprint build");
                } else {
                    b.add(&key).expect("harness: fingerprint build");
                    sb.insert(&key).expect("harness: fingerprint build");
                }
            }
            let raw = b.into_inner().expect("harness: fingerprint build");
            let other = if valued { mb.into_inner() } else { sb.into_inner() }.expect("harness: fingerprint build");
            for (name, bytes) in [("raw", &raw), (if valued { "map" } else { "set" }, &other)] {
                let mut d = rng::Digest::new();
                d.bytes(bytes);
                println!("keys={} valued={} builder={} bytes={} digest={:016x}", n, valued, name, bytes.len(), d.finish());
            }
        }
        return;
    }
    if let Err(e) = model::self_test() {
        exec::harness_error(e);
    }
    match &args[1][..] {
        "run" => {
            let prop = args.get(2).cloned().unwrap_or_default();
            let cfg = cfg_from_env(&prop, &args[3..]);
            front::install_quiet_panic_hook();
            println!("fstsim: property={} tier={} VERIF_SEED={} workers={}", cfg.prop, cfg.tier.name(), cfg.seed, cfg.workers);
            let plan = plan_for(&cfg);
            let mut res = run_batch(&cfg, plan.n, plan.scenario, false);
            let mut extra = plan.extra;
            // C15: the determinism proof is part of the property's oracle
            if prop == "C15" && res.stats.found.is_empty() && driver::build_profile() != "plain" {
                let n = match cfg.tier {
                    Tier::Quick => 2_000u64,
                    Tier::Thorough => 100_000,
                };
                let mine = digests(&cfg, n);
                let exe = std::env::current_exe().expect("current_exe");
                let mut procs = 0;
                let worker_counts: Vec<usize> = match cfg.tier {
                    Tier::Quick => vec![1, 3, 7, 16],
                    Tier::Thorough => vec![1, 2, 3, 4, 5, 7, 8, 11, 16, 16, 1, 2, 3, 4, 5, 7, 8, 11, 16, 1],
                };
                // all child processes run concurrently (they are independent)
                let children: Vec<(usize, std::process::Child)> = worker_counts
                    .iter()
                    .map(|&w| {
                        let c = std::process::Command::new(&exe)
                            .args(["digests", "C15", &n.to_string(), "--workers", &w.to_string(), "--seed", &cfg.seed.to_string(), "--tier", cfg.tier.name(), "--scale", &cfg.scale.to_string()])
                            .stdout(std::process::Stdio::piped())
                            .stderr(std::process::Stdio::piped())
                            .spawn()
                            .expect("spawn digests child");
                        (w, c)
                    })
                    .collect();
                for (w, child) in children {
                    let out = child.wait_with_output().expect("wait digests child");
                    if !out.status.success() {
                        exec::harness_error(format!("digests child failed: {}", String::from_utf8_lossy(&out.stderr)));
                    }
                    let theirs: Vec<(u64, u64)> = String::from_utf8_lossy(&out.stdout)
                        .lines()
                        .filter_map(|l| {
                            let mut it = l.split_whitespace();
                            Some((it.next()?.parse().ok()?, u64::from_str_radix(it.next()?, 16).ok()?))
                        })
                        .collect();
                    procs += 1;
                    if theirs != mine {
                        let bad = mine
                            .iter()
                            .zip(theirs.iter())
                            .find(|(a, b)| a != b)
                            .map(|(a, _)| a.0)
                            .unwrap_or(0);
                        // the same world gave different bytes in another process
                        println!("C15: run index {} produced a different output digest in a separate process with {} workers", bad, w);
                        let path = format!("{}/replays/C15-{}-crossprocess-{}.json", cfg.verif_dir, cfg.seed, bad);
                        let _ = std::fs::create_dir_all(format!("{}/replays", cfg.verif_dir));
                        let _ = std::fs::write(&path, serde_json::to_string_pretty(&json!({
                            "property": "C15", "oracle": "C15.output_differs_across_processes", "engine": "A",
                            "kind": "multi_builder", "seed": cfg.seed, "run": bad,
                            "note": "re-execute with: fstsim digests C15 <n> in two processes and compare line <run>",
                        })).unwrap());
                        println!("VIOLATION property=C15 replay={}", path);
                        let mut known_hits = std::collections::BTreeMap::new();
                        known_hits.clear();
                        driver::write_evidence(&cfg, &mut res, &plan.meta, 1, &known_hits, extra);
                        std::process::exit(1);
                    }
                }
                extra["cross_process_determinism"] = json!({
                    "run_indices_reexecuted": n,
                    "separate_processes": procs,
                    "all_digests_equal": true,
                });
            }
            if prop == "C20" {
                extra["unsafe_lint"] = json!(std::env::var("VERIF_UNSAFE_LINT").unwrap_or_else(|_| "not run by this invocation".into()));
            }
            let code = conclude(&cfg, &mut res, &plan.meta, extra, plan.scenario);
            std::process::exit(code);
        }
        "digests" => {
            let prop = args.get(2).cloned().unwrap_or_default();
            let n: u64 = args.get(3).and_then(|s| s.parse().ok()).unwrap_or(1000);
            let cfg = cfg_from_env(&prop, &args[4..]);
            front::install_quiet_panic_hook();
            for (i, d) in digests(&cfg, n) {
                println!("{} {:016x}", i, d);
            }
        }
        "history" => {
            let prop = args.get(2).cloned().unwrap_or_default();
            let cfg = cfg_from_env(&prop, &args[3..]);
            let oracle = args.iter().position(|a| a == "--oracle").and_then(|i| args.get(i + 1)).cloned().unwrap_or_default();
            front::install_quiet_panic_hook();
            let plan = plan_for(&cfg);
            std::process::exit(driver::history_child(&cfg, plan.scenario, &oracle));
        }
        "debug-delta" => debug_delta_linearity(),
        "replay" => {
            let path = args.get(2).cloned().unwrap_or_default();
            if let Ok(text) = std::fs::read_to_string(&path) {
                if let Ok(v) = serde_json::from_str::<serde_json::Value>(&text) {
                    if v["kind"].as_str() == Some("history") {
                        let prop = v["property"].as_str().unwrap_or("").to_string();
                        let a: Vec<String> = vec![
                            "--tier".into(),
                            v["tier"].as_str().unwrap_or("quick").to_string(),
                            "--seed".into(),
                            v["seed"].as_u64().unwrap_or(1).to_string(),
                            "--scale".into(),
                            v["scale"].as_f64().unwrap_or(1.0).to_string(),
                        ];
                        let cfg = cfg_from_env(&prop, &a);
                        front::install_quiet_panic_hook();
                        let plan = plan_for(&cfg);
                        std::process::exit(driver::replay_history(&cfg, plan.scenario, &v, &path));
                    }
                }
            }
            std::process::exit(driver::replay(&path));
        }
        _ => {
            eprintln!("unknown command {}", args[1]);
            std::process::exit(2);
        }
    }
}

#[allow(dead_code)]
pub fn debug_delta_linearity() {
    for pad in [1u64, 2, 3, 4, 5, 10, 100, 254, 255, 256, 257, 1000, 5000] {
        println!("pad {} -> {:?}", pad, mem::debug_delta(3000, 7, pad));
    }
}
