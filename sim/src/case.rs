//! The explicit, replayable description of one simulated run, and its JSON
//! form (DESIGN Appendix B). Replay executes from these explicit lists; the
//! seed is kept only to say where a case came from.

use serde_json::{json, Map, Value};

use crate::build::BuildCase;
use crate::front::{hex, unhex, Fin, Front, Item, Op, TaskSpec, Via};
use crate::mem::{DeltaCase, KeyFamily, MemBuildCase, MemReadCase};
use crate::multi::{FromIterCase, MKind, MTask, MemFront, MultiCase};
use crate::payload::PayloadCase;
use crate::restart::{Base, CorruptCase, Mutation};
use crate::sink::{ErrKind, FStep, Flip, Plan, Rest, Shape, WStep};

#[derive(Clone, Debug, PartialEq, Eq)]
pub enum Case {
    Build(BuildCase),
    Payload(PayloadCase),
    Corrupt(CorruptCase),
    Multi(MultiCase),
    MemBuild(MemBuildCase),
    MemRead(MemReadCase),
    FromIter(FromIterCase),
    Delta(DeltaCase),
    Epoch(crate::multi::EpochCase),
    Long(crate::multi::LongCase),
}

impl Case {
    pub fn kind(&self) -> &'static str {
        match self {
            Case::Build(_) => "build",
            Case::Payload(_) => "crc_payload",
            Case::Corrupt(_) => "corrupt_or_crash_restart",
            Case::Multi(_) => "multi_builder",
            Case::MemBuild(_) => "mem_build",
            Case::MemRead(_) => "mem_read",
            Case::FromIter(_) => "from_iter_history",
            Case::Delta(_) => "address_delta_boundary",
            Case::Epoch(_) => "many_builders_in_a_row",
            Case::Long(_) => "long_build_interrupted_before_every_write",
        }
    }
}

type R<T> = Result<T, String>;

fn get<'a>(v: &'a Value, k: &str) -> R<&'a Value> {
    v.get(k).ok_or_else(|| format!("missing field {}", k))
}
fn get_u64(v: &Value, k: &str) -> R<u64> {
    get(v, k)?.as_u64().ok_or_else(|| format!("field {} not u64", k))
}
fn get_usize(v: &Value, k: &str) -> R<usize> {
    Ok(get_u64(v, k)? as usize)
}
fn get_str<'a>(v: &'a Value, k: &str) -> R<&'a str> {
    get(v, k)?.as_str().ok_or_else(|| format!("field {} not string", k))
}
fn get_arr<'a>(v: &'a Value, k: &str) -> R<&'a Vec<Value>> {
    get(v, k)?.as_array().ok_or_else(|| format!("field {} not array", k))
}
fn get_hex(v: &Value, k: &str) -> R<Vec<u8>> {
    unhex(get_str(v, k)?).ok_or_else(|| format!("field {} not hex", k))
}
fn opt<'a>(v: &'a Value, k: &str) -> Option<&'a Value> {
    match v.get(k) {
        None | Some(Value::Null) => None,
        Some(x) => Some(x),
    }
}

fn items_to(items: &[Item]) -> Value {
    Value::Array(items.iter().map(|(k, v)| json!([hex(k), v])).collect())
}
fn items_from(v: &Value) -> R<Vec<Item>> {
    let a = v.as_array().ok_or("items not array")?;
    let mut out = Vec::new();
    for x in a {
        let p = x.as_array().ok_or("item not pair")?;
        if p.len() != 2 {
            return Err("item not pair".into());
        }
        let k = unhex(p[0].as_str().ok_or("item key")?).ok_or("item key hex")?;
        let val = p[1].as_u64().ok_or("item value")?;
        out.push((k, val));
    }
    Ok(out)
}

fn op_to(op: &Op) -> Value {
    match op {
        Op::Ins(k, v) => json!({"insert": {"key_hex": hex(k), "value": v}}),
        Op::Add(k) => json!({"add": {"key_hex": hex(k)}}),
        Op::ExtIter(it) => json!({"extend_iter": {"items": items_to(it)}}),
        Op::ExtStream(it, via) => {
            json!({"extend_stream": {"items": items_to(it), "via": via.name()}})
        }
    }
}
fn op_from(v: &Value) -> R<Op> {
    if let Some(x) = v.get("insert") {
        return Ok(Op::Ins(get_hex(x, "key_hex")?, get_u64(x, "value")?));
    }
    if let Some(x) = v.get("add") {
        return Ok(Op::Add(get_hex(x, "key_hex")?));
    }
    if let Some(x) = v.get("extend_iter") {
        return Ok(Op::ExtIter(items_from(get(x, "items")?)?));
    }
    if let Some(x) = v.get("extend_stream") {
        let via = Via::from_name(get_str(x, "via")?).ok_or("bad via")?;
        return Ok(Op::ExtStream(items_from(get(x, "items")?)?, via));
    }
    Err(format!("unknown op {}", v))
}

fn reg_to(r: &Option<(usize, usize)>) -> Value {
    match r {
        None => Value::Null,
        Some((a, b)) => json!([a, b]),
    }
}
fn reg_from(v: Option<&Value>) -> R<Option<(usize, usize)>> {
    match v {
        None => Ok(None),
        Some(x) => {
            let a = x.as_array().ok_or("registry not array")?;
            if a.len() != 2 {
                return Err("registry not pair".into());
            }
            Ok(Some((
                a[0].as_u64().ok_or("registry")? as usize,
                a[1].as_u64().ok_or("registry")? as usize,
            )))
        }
    }
}

pub fn task_to(t: &TaskSpec) -> Value {
    json!({
        "front_end": t.front.name(),
        "registry": reg_to(&t.registry),
        "finish": match t.fin { Fin::Finish => "finish", Fin::IntoInner => "into_inner", Fin::Abandon => "dropped_without_finish" },
        "ops": Value::Array(t.ops.iter().map(op_to).collect()),
    })
}
pub fn task_from(v: &Value) -> R<TaskSpec> {
    let front = Front::from_name(get_str(v, "front_end")?).ok_or("bad front_end")?;
    let fin = match get_str(v, "finish")? {
        "finish" => Fin::Finish,
        "into_inner" => Fin::IntoInner,
        "dropped_without_finish" => Fin::Abandon,
        x => return Err(format!("bad finish {}", x)),
    };
    let mut ops = Vec::new();
    for o in get_arr(v, "ops")? {
        ops.push(op_from(o)?);
    }
    Ok(TaskSpec { front, registry: reg_from(opt(v, "registry"))?, ops, fin })
}

fn wstep_to(s: &WStep) -> Value {
    match s {
        WStep::Full => json!("full"),
        WStep::Accept(n) => json!({"accept": n}),
        WStep::Intr => json!("interrupted"),
        WStep::Err(k) => json!({"err": k.name()}),
        WStep::Zero => json!("ok0"),
    }
}
fn wstep_from(v: &Value) -> R<WStep> {
    if let Some(s) = v.as_str() {
        return match s {
            "full" => Ok(WStep::Full),
            "interrupted" => Ok(WStep::Intr),
            "ok0" => Ok(WStep::Zero),
            _ => Err(format!("bad write step {}", s)),
        };
    }
    if let Some(n) = v.get("accept") {
        return Ok(WStep::Accept(n.as_u64().ok_or("accept")? as usize));
    }
    if let Some(k) = v.get("err") {
        return Ok(WStep::Err(
            ErrKind::from_name(k.as_str().ok_or("err")?).ok_or("bad err kind")?,
        ));
    }
    Err(format!("bad write step {}", v))
}

/// Run-length encode the write schedule: long runs of "full" are common.
fn writes_to(ws: &[WStep]) -> Value {
    let mut out = Vec::new();
    let mut i = 0;
    while i < ws.len() {
        let mut j = i;
        while j < ws.len() && ws[j] == ws[i] {
            j += 1;
        }
        if j - i >= 3 {
            out.push(json!({"repeat": j - i, "step": wstep_to(&ws[i])}));
        } else {
            for s in &ws[i..j] {
                out.push(wstep_to(s));
            }
        }
        i = j;
    }
    Value::Array(out)
}
fn writes_from(v: &Value) -> R<Vec<WStep>> {
    let mut out = Vec::new();
    for x in v.as_array().ok_or("writes not array")? {
        if let Some(n) = x.get("repeat") {
            let s = wstep_from(get(x, "step")?)?;
            for _ in 0..n.as_u64().ok_or("repeat")? {
                out.push(s);
            }
        } else {
            out.push(wstep_from(x)?);
        }
    }
    Ok(out)
}

pub fn plan_to(p: &Plan) -> Value {
    json!({
        "writes": writes_to(&p.writes),
        "rest": match p.rest { Rest::Full => json!("full"), Rest::Cap(n) => json!({"cap": n}) },
        "flushes": Value::Array(p.flushes.iter().map(|f| match f {
            FStep::Ok => json!("ok"),
            FStep::Err(k) => json!({"err": k.name()}),
        }).collect()),
        "sticky_fault": match p.sticky { None => Value::Null, Some((e, k)) => json!({"from_event": e, "kind": k.name()}) },
        "crash": match p.crash { None => Value::Null, Some((e, t)) => json!({"at_event": e, "torn_bytes": t}) },
        "flips": Value::Array(p.flips.iter().map(|f| json!({"after_event": f.after_event, "pos": f.pos, "xor": f.xor})).collect()),
        "fault_at_write_call": match &p.fault_write { None => Value::Null, Some((i, st)) => json!({"index": i, "outcome": wstep_to(st)}) },
        "fault_at_flush_call": match &p.fault_flush { None => Value::Null, Some((i, k)) => json!({"index": i, "err": k.name()}) },
        "native_vectored_writes": p.vectored,
        "error_representation": p.err_repr.name(),
        "writer_builds_another_fst_inside_every_nth_write": p.reenter_every,
    })
}
pub fn plan_from(v: &Value) -> R<Plan> {
    let rest = match get(v, "rest")? {
        Value::String(s) if s == "full" => Rest::Full,
        x => Rest::Cap(get_usize(x, "cap")?),
    };
    let mut flushes = Vec::new();
    for f in get_arr(v, "flushes")? {
        flushes.push(match f {
            Value::String(s) if s == "ok" => FStep::Ok,
            x => FStep::Err(ErrKind::from_name(get_str(x, "err")?).ok_or("bad kind")?),
        });
    }
    let sticky = match opt(v, "sticky_fault") {
        None => None,
        Some(x) => Some((
            get_u64(x, "from_event")?,
            ErrKind::from_name(get_str(x, "kind")?).ok_or("bad kind")?,
        )),
    };
    let crash = match opt(v, "crash") {
        None => None,
        Some(x) => Some((get_u64(x, "at_event")?, get_usize(x, "torn_bytes")?)),
    };
    let mut flips = Vec::new();
    for f in get_arr(v, "flips")? {
        flips.push(Flip {
            after_event: get_u64(f, "after_event")?,
            pos: get_usize(f, "pos")?,
            xor: get_u64(f, "xor")? as u8,
        });
    }
    let fault_write = match opt(v, "fault_at_write_call") {
        None => None,
        Some(x) => Some((get_usize(x, "index")?, wstep_from(get(x, "outcome")?)?)),
    };
    let fault_flush = match opt(v, "fault_at_flush_call") {
        None => None,
        Some(x) => Some((
            get_usize(x, "index")?,
            ErrKind::from_name(get_str(x, "err")?).ok_or("bad kind")?,
        )),
    };
    Ok(Plan {
        writes: writes_from(get(v, "writes")?)?,
        rest,
        flushes,
        sticky,
        crash,
        flips,
        fault_write,
        fault_flush,
        fault_write_sized: None,
        vectored: v.get("native_vectored_writes").and_then(|x| x.as_bool()).unwrap_or(false),
        reenter_every: v.get("writer_builds_another_fst_inside_every_nth_write").and_then(|x| x.as_u64()).unwrap_or(0) as usize,
        err_repr: v.get("error_representation").and_then(|x| x.as_str()).and_then(crate::sink::ErrRepr::from_name).unwrap_or(crate::sink::ErrRepr::Message),
    })
}

fn shape_to(s: &Option<(Shape, u64)>) -> Value {
    match s {
        None => Value::Null,
        Some((sh, seed)) => {
            let shv = match sh {
                Shape::Full => json!("full"),
                Shape::Cap(n) => json!({"cap": n}),
                Shape::Random { short_16, intr_16 } => {
                    json!({"random": {"short_16": short_16, "intr_16": intr_16}})
                }
                Shape::Storm => json!("storm"),
            };
            json!({"shape": shv, "stream_seed": seed.to_string()})
        }
    }
}
fn shape_from(v: Option<&Value>) -> R<Option<(Shape, u64)>> {
    let v = match v {
        None => return Ok(None),
        Some(v) => v,
    };
    let seed: u64 = get_str(v, "stream_seed")?.parse().map_err(|_| "bad stream_seed")?;
    let sh = match get(v, "shape")? {
        Value::String(s) if s == "full" => Shape::Full,
        Value::String(s) if s == "storm" => Shape::Storm,
        x => {
            if let Some(n) = x.get("cap") {
                Shape::Cap(n.as_u64().ok_or("cap")? as usize)
            } else {
                let r = get(x, "random")?;
                Shape::Random {
                    short_16: get_u64(r, "short_16")? as u8,
                    intr_16: get_u64(r, "intr_16")? as u8,
                }
            }
        }
    };
    Ok(Some((sh, seed)))
}

pub fn build_to(b: &BuildCase) -> Value {
    json!({
        "task": task_to(&b.task),
        "bufwriter_capacity": match b.bufcap { None => Value::Null, Some(c) => json!(c) },
        "prefill_hex": hex(&b.prefill),
        "sink_plan": plan_to(&b.plan),
        "random_sink": shape_to(&b.random),
    })
}
pub fn build_from(v: &Value) -> R<BuildCase> {
    Ok(BuildCase {
        task: task_from(get(v, "task")?)?,
        bufcap: opt(v, "bufwriter_capacity").map(|x| x.as_u64().unwrap_or(0) as usize),
        prefill: get_hex(v, "prefill_hex")?,
        plan: plan_from(get(v, "sink_plan")?)?,
        random: shape_from(opt(v, "random_sink"))?,
    })
}

fn mut_to(m: &Mutation) -> Value {
    match m {
        Mutation::Subst { pos, val } => json!({"subst": {"pos": pos, "val": val}}),
        Mutation::Burst { pos, bytes } => json!({"burst": {"pos": pos, "bytes_hex": hex(bytes)}}),
        Mutation::Truncate { len } => json!({"truncate": {"len": len}}),
        Mutation::Tail { bytes } => json!({"tail": {"bytes_hex": hex(bytes)}}),
        Mutation::Version { v } => json!({"version": {"v": v.to_string()}}),
        Mutation::FixChecksum => json!("recompute_checksum"),
        Mutation::Downgrade { v } => json!({"downgrade_to_version": v}),
        Mutation::TrailerFrom { kind } => json!({"trailer_from_body": kind.name()}),
        Mutation::PadTo { len } => json!({"pad_to_length": len.to_string()}),
    }
}
fn mut_from(v: &Value) -> R<Mutation> {
    if v.as_str() == Some("recompute_checksum") {
        return Ok(Mutation::FixChecksum);
    }
    if let Some(x) = v.get("pad_to_length") {
        return Ok(Mutation::PadTo { len: x.as_str().and_then(|s| s.parse().ok()).ok_or("pad_to_length")? });
    }
    if let Some(x) = v.get("trailer_from_body") {
        let kind = crate::restart::TrailerKind::from_name(x.as_str().unwrap_or("")).ok_or("trailer kind")?;
        return Ok(Mutation::TrailerFrom { kind });
    }
    if let Some(x) = v.get("downgrade_to_version") {
        return Ok(Mutation::Downgrade { v: x.as_u64().ok_or("version")? });
    }
    if let Some(x) = v.get("subst") {
        return Ok(Mutation::Subst { pos: get_usize(x, "pos")?, val: get_u64(x, "val")? as u8 });
    }
    if let Some(x) = v.get("burst") {
        return Ok(Mutation::Burst { pos: get_usize(x, "pos")?, bytes: get_hex(x, "bytes_hex")? });
    }
    if let Some(x) = v.get("truncate") {
        return Ok(Mutation::Truncate { len: get_usize(x, "len")? });
    }
    if let Some(x) = v.get("tail") {
        return Ok(Mutation::Tail { bytes: get_hex(x, "bytes_hex")? });
    }
    if let Some(x) = v.get("version") {
        return Ok(Mutation::Version { v: get_str(x, "v")?.parse().map_err(|_| "bad version")? });
    }
    Err(format!("unknown mutation {}", v))
}

pub fn corrupt_to(c: &CorruptCase) -> Value {
    let base = match &c.base {
        Base::Build(t) => json!({"clean_build": task_to(t)}),
        Base::Survivor(b) => json!({"survivor_of": build_to(b)}),
        Base::Raw(b) => json!({"raw_hex": hex(b)}),
    };
    json!({"base": base, "mutations": Value::Array(c.muts.iter().map(mut_to).collect())})
}
pub fn corrupt_from(v: &Value) -> R<CorruptCase> {
    let b = get(v, "base")?;
    let base = if let Some(t) = b.get("clean_build") {
        Base::Build(task_from(t)?)
    } else if let Some(x) = b.get("survivor_of") {
        Base::Survivor(build_from(x)?)
    } else {
        Base::Raw(get_hex(b, "raw_hex")?)
    };
    let mut muts = Vec::new();
    for m in get_arr(v, "mutations")? {
        muts.push(mut_from(m)?);
    }
    Ok(CorruptCase { base, muts })
}

pub fn payload_to(p: &PayloadCase) -> Value {
    json!({
        "payload_hex": hex(&p.payload),
        "chunk_lens": p.chunk_lens,
        "bufwriter_capacity": match p.bufcap { None => Value::Null, Some(c) => json!(c) },
        "sink_plan": plan_to(&p.plan),
        "random_sink": shape_to(&p.random),
    })
}
pub fn payload_from(v: &Value) -> R<PayloadCase> {
    let mut chunk_lens = Vec::new();
    for c in get_arr(v, "chunk_lens")? {
        chunk_lens.push(c.as_u64().ok_or("chunk_lens")? as usize);
    }
    Ok(PayloadCase {
        payload: get_hex(v, "payload_hex")?,
        chunk_lens,
        bufcap: opt(v, "bufwriter_capacity").map(|x| x.as_u64().unwrap_or(0) as usize),
        plan: plan_from(get(v, "sink_plan")?)?,
        random: shape_from(opt(v, "random_sink"))?,
    })
}

pub fn multi_to(m: &MultiCase) -> Value {
    json!({
        "items": items_to(&m.items),
        "valued": m.valued,
        "tasks": Value::Array(m.tasks.iter().map(|t| json!({
            "same_sequence": t.same,
            "kind": match &t.kind {
                MKind::Mem(f) => json!({"memory_entry_point": f.name()}),
                MKind::Sink(b) => json!({"builder_with_sink": build_to(b)}),
            }
        })).collect()),
        "task_schedule": m.schedule,
        "schedule_seed": match m.sched_seed { None => Value::Null, Some(s) => json!(s.to_string()) },
    })
}
pub fn multi_from(v: &Value) -> R<MultiCase> {
    let mut tasks = Vec::new();
    for t in get_arr(v, "tasks")? {
        let k = get(t, "kind")?;
        let kind = if let Some(f) = k.get("memory_entry_point") {
            MKind::Mem(MemFront::from_name(f.as_str().ok_or("mem front")?).ok_or("bad mem front")?)
        } else {
            MKind::Sink(build_from(get(k, "builder_with_sink")?)?)
        };
        tasks.push(MTask { kind, same: get(t, "same_sequence")?.as_bool().ok_or("same")? });
    }
    let mut schedule = Vec::new();
    for s in get_arr(v, "task_schedule")? {
        schedule.push(s.as_u64().ok_or("schedule")? as u16);
    }
    Ok(MultiCase {
        items: items_from(get(v, "items")?)?,
        valued: get(v, "valued")?.as_bool().ok_or("valued")?,
        tasks,
        schedule,
        sched_seed: match opt(v, "schedule_seed") {
            None => None,
            Some(s) => Some(s.as_str().ok_or("seed")?.parse().map_err(|_| "seed")?),
        },
    })
}

fn fam_to(f: &KeyFamily) -> Value {
    json!({"n": f.n, "fanout": f.fanout, "keylen": f.keylen, "seed": f.seed.to_string(), "prefix_pairs": f.pairs, "leaf_fan": f.leaf_fan, "decreasing_values": f.decreasing, "repeat_each_key": f.repeat, "section_vocabulary": f.sec_vocab, "section_parents": f.sec_parents})
}
fn fam_from(v: &Value) -> R<KeyFamily> {
    Ok(KeyFamily {
        n: get_u64(v, "n")?,
        fanout: get_u64(v, "fanout")? as u32,
        keylen: get_u64(v, "keylen")? as u32,
        seed: get_str(v, "seed")?.parse().map_err(|_| "seed")?,
        pairs: v.get("prefix_pairs").and_then(|x| x.as_bool()).unwrap_or(false),
        leaf_fan: v.get("leaf_fan").and_then(|x| x.as_u64()).unwrap_or(0) as u32,
        decreasing: v.get("decreasing_values").and_then(|x| x.as_bool()).unwrap_or(false),
        repeat: v.get("repeat_each_key").and_then(|x| x.as_u64()).unwrap_or(1) as u32,
        sec_vocab: v.get("section_vocabulary").and_then(|x| x.as_u64()).unwrap_or(0) as u32,
        sec_parents: v.get("section_parents").and_then(|x| x.as_u64()).unwrap_or(0) as u32,
    })
}

fn hint_name(h: u8) -> &'static str {
    ["(0, None)", "exact", "(usize::MAX, None)", "(0, Some(0))"][(h % 4) as usize]
}

pub fn case_to(c: &Case) -> Value {
    match c {
        Case::Build(b) => json!({"build": build_to(b)}),
        Case::Payload(p) => json!({"crc_payload": payload_to(p)}),
        Case::Corrupt(c) => json!({"corrupt": corrupt_to(c)}),
        Case::Multi(m) => json!({"multi_builder": multi_to(m)}),
        Case::MemBuild(m) => json!({"mem_build": {
            "family": fam_to(&m.fam), "map": m.map, "registry": reg_to(&m.registry),
            "bufwriter_capacity": match m.bufcap { None => Value::Null, Some(c) => json!(c) },
            "checkpoint_every": m.every,
            "sink": shape_to(&Some((m.shape, 0))),
            "one_extend_iter_call": m.bulk && !m.bulk_stream,
            "one_extend_stream_call": m.bulk && m.bulk_stream,
            "rejected_inserts_after_each_key": m.rejects,
            "one_run_of_rejected_inserts_at_half_way": m.reject_run,
            "builder_handed_back_and_forth_between_threads": m.threads,
            "prologue": m.prologue,
        }}),
        Case::Delta(d) => json!({"address_delta_boundary": {"target_delta": d.target, "seed": d.seed.to_string()}}),
        Case::Epoch(e) => json!({"many_builders_in_a_row": {"items": items_to(&e.items), "valued": e.valued, "empty_builders_between_the_two_builds": e.between}}),
        Case::Long(l) => json!({"long_build_interrupted_before_every_write": {"keys": l.n, "seed": l.seed.to_string(), "valued": l.valued, "one_byte_acceptance_every": l.short_every}}),
        Case::FromIter(f) => json!({"from_iter": {"entry_point": f.entry.name(), "items": items_to(&f.items), "iterator_size_hint": hint_name(f.hint)}}),
        Case::MemRead(m) => json!({"mem_read": {
            "n_small": m.n_small, "n_large": m.n_large, "fanout": m.fanout,
            "keylen": m.keylen, "seed": m.seed.to_string(), "k": m.k,
        }}),
    }
}
pub fn case_from(v: &Value) -> R<Case> {
    if let Some(x) = v.get("build") {
        return Ok(Case::Build(build_from(x)?));
    }
    if let Some(x) = v.get("crc_payload") {
        return Ok(Case::Payload(payload_from(x)?));
    }
    if let Some(x) = v.get("corrupt") {
        return Ok(Case::Corrupt(corrupt_from(x)?));
    }
    if let Some(x) = v.get("multi_builder") {
        return Ok(Case::Multi(multi_from(x)?));
    }
    if let Some(x) = v.get("mem_build") {
        return Ok(Case::MemBuild(MemBuildCase {
            fam: fam_from(get(x, "family")?)?,
            map: get(x, "map")?.as_bool().ok_or("map")?,
            registry: reg_from(opt(x, "registry"))?,
            bufcap: opt(x, "bufwriter_capacity").map(|c| c.as_u64().unwrap_or(0) as usize),
            every: get_u64(x, "checkpoint_every")?,
            shape: shape_from(opt(x, "sink"))?.map(|s| s.0).unwrap_or(Shape::Random { short_16: 2, intr_16: 1 }),
            bulk: x.get("one_extend_iter_call").and_then(|b| b.as_bool()).unwrap_or(false)
                || x.get("one_extend_stream_call").and_then(|b| b.as_bool()).unwrap_or(false),
            bulk_stream: x.get("one_extend_stream_call").and_then(|b| b.as_bool()).unwrap_or(false),
            rejects: x.get("rejected_inserts_after_each_key").and_then(|b| b.as_u64()).unwrap_or(0) as u32,
            reject_run: x.get("one_run_of_rejected_inserts_at_half_way").and_then(|b| b.as_u64()).unwrap_or(0),
            threads: x.get("builder_handed_back_and_forth_between_threads").and_then(|b| b.as_u64()).unwrap_or(1) as u8,
            prologue: x.get("prologue").and_then(|b| b.as_u64()).unwrap_or(0) as u8,
        }));
    }
    if let Some(x) = v.get("many_builders_in_a_row") {
        return Ok(Case::Epoch(crate::multi::EpochCase {
            items: items_from(get(x, "items")?)?,
            valued: get(x, "valued")?.as_bool().ok_or("valued")?,
            between: get_u64(x, "empty_builders_between_the_two_builds")?,
        }));
    }
    if let Some(x) = v.get("long_build_interrupted_before_every_write") {
        return Ok(Case::Long(crate::multi::LongCase {
            n: get_u64(x, "keys")?,
            seed: get_str(x, "seed")?.parse().map_err(|_| "seed")?,
            valued: get(x, "valued")?.as_bool().ok_or("valued")?,
            short_every: get_u64(x, "one_byte_acceptance_every")?,
        }));
    }
    if let Some(x) = v.get("address_delta_boundary") {
        return Ok(Case::Delta(DeltaCase {
            target: get_u64(x, "target_delta")?,
            seed: get_str(x, "seed")?.parse().map_err(|_| "seed")?,
        }));
    }
    if let Some(x) = v.get("from_iter") {
        return Ok(Case::FromIter(FromIterCase {
            entry: MemFront::from_name(get_str(x, "entry_point")?).ok_or("bad entry point")?,
            items: items_from(get(x, "items")?)?,
            hint: match x.get("iterator_size_hint").and_then(|h| h.as_str()) {
                Some("exact") => 1,
                Some("(usize::MAX, None)") => 2,
                Some("(0, Some(0))") => 3,
                _ => 0,
            },
        }));
    }
    if let Some(x) = v.get("mem_read") {
        return Ok(Case::MemRead(MemReadCase {
            n_small: get_u64(x, "n_small")?,
            n_large: get_u64(x, "n_large")?,
            fanout: get_u64(x, "fanout")? as u32,
            keylen: get_u64(x, "keylen")? as u32,
            seed: get_str(x, "seed")?.parse().map_err(|_| "seed")?,
            k: get_u64(x, "k")? as u32,
        }));
    }
    Err("unknown case kind".into())
}

/// A short human-readable rendering for evidence samples.
pub fn summary(c: &Case) -> Value {
    let v = case_to(c);
    let s = v.to_string();
    if s.len() <= 1500 {
        v
    } else {
        let mut m = Map::new();
        m.insert("kind".into(), json!(c.kind()));
        m.insert("truncated_json".into(), json!(format!("{}…", &s[..1400])));
        Value::Object(m)
    }
}
