//! The only source of randomness in the simulator: a SplitMix64 stream.
//!
//! Own implementation on purpose, so that no crate upgrade can change a
//! stream and a seed stays a replayable description of a run.

#[derive(Clone, Debug)]
pub struct Rng(u64);

#[inline]
fn sm64(state: &mut u64) -> u64 {
    *state = state.wrapping_add(0x9E37_79B9_7F4A_7C15);
    let mut z = *state;
    z = (z ^ (z >> 30)).wrapping_mul(0xBF58_476D_1CE4_E5B9);
    z = (z ^ (z >> 27)).wrapping_mul(0x94D0_49BB_1331_11EB);
    z ^ (z >> 31)
}

/// Derive the seed of run `i` of scenario `tag` from the batch seed.
pub fn mix(seed: u64, tag: u64, i: u64) -> u64 {
    let mut s = seed ^ 0x6A09_E667_F3BC_C908;
    let a = sm64(&mut s);
    s ^= tag.wrapping_mul(0xD6E8_FEB8_6659_FD93);
    let b = sm64(&mut s);
    s ^= i.wrapping_mul(0xA076_1D64_78BD_642F);
    let c = sm64(&mut s);
    a ^ b.rotate_left(21) ^ c.rotate_left(42)
}

pub fn tag_of(s: &str) -> u64 {
    let mut h: u64 = 0xcbf2_9ce4_8422_2325;
    for &b in s.as_bytes() {
        h = (h ^ b as u64).wrapping_mul(0x1000_0000_01b3);
    }
    h
}

impl Rng {
    pub fn new(seed: u64) -> Rng {
        Rng(seed)
    }

    #[inline]
    pub fn next_u64(&mut self) -> u64 {
        sm64(&mut self.0)
    }

    /// Uniform in 0..n (n > 0).
    #[inline]
    pub fn below(&mut self, n: u64) -> u64 {
        debug_assert!(n > 0);
        // multiply-shift; bias is irrelevant for simulation purposes but the
        // mapping is fixed, which is what matters.
        ((self.next_u64() as u128 * n as u128) >> 64) as u64
    }

    #[inline]
    pub fn usize_below(&mut self, n: usize) -> usize {
        self.below(n as u64) as usize
    }

    /// Uniform in lo..=hi.
    #[inline]
    pub fn range(&mut self, lo: u64, hi: u64) -> u64 {
        debug_assert!(lo <= hi);
        if lo == 0 && hi == u64::MAX {
            return self.next_u64();
        }
        lo + self.below(hi - lo + 1)
    }

    #[inline]
    pub fn urange(&mut self, lo: usize, hi: usize) -> usize {
        self.range(lo as u64, hi as u64) as usize
    }

    /// True with probability num/den.
    #[inline]
    pub fn chance(&mut self, num: u64, den: u64) -> bool {
        self.below(den) < num
    }

    pub fn pick<'a, T>(&mut self, xs: &'a [T]) -> &'a T {
        &xs[self.usize_below(xs.len())]
    }

    pub fn fork(&mut self) -> Rng {
        Rng(self.next_u64())
    }
}

/// 64-bit FNV-1a running digest used for event-log identities.
#[derive(Clone, Copy, Debug)]
pub struct Digest(pub u64);

impl Digest {
    pub fn new() -> Digest {
        Digest(0xcbf2_9ce4_8422_2325)
    }
    #[inline]
    pub fn u8(&mut self, b: u8) {
        self.0 = (self.0 ^ b as u64).wrapping_mul(0x1000_0000_01b3);
    }
    #[inline]
    pub fn u64(&mut self, v: u64) {
        // fold whole words; cheaper than byte-wise and still order sensitive
        self.0 = (self.0 ^ v).wrapping_mul(0x1000_0000_01b3);
        self.0 = (self.0 ^ (v >> 32)).wrapping_mul(0x1000_0000_01b3);
        self.0 ^= self.0 >> 29;
    }
    pub fn bytes(&mut self, bs: &[u8]) {
        self.u64(bs.len() as u64);
        let mut chunks = bs.chunks_exact(8);
        for c in &mut chunks {
            let mut w = [0u8; 8];
            w.copy_from_slice(c);
            self.u64(u64::from_le_bytes(w));
        }
        for &b in chunks.remainder() {
            self.u8(b);
        }
    }
    pub fn str(&mut self, s: &str) {
        self.bytes(s.as_bytes());
    }
    pub fn finish(self) -> u64 {
        let mut s = self.0;
        sm64(&mut s)
    }
}
