//! Scenario generators: what run index `i` of each property's batch does.
//! Every choice comes from `Rng::new(mix(seed, tag(property), i))`.

use crate::build::{run_build, BuildCase};
use crate::case::Case;
use crate::driver::{Cfg, Stats, Tier};
use crate::front::{Fin, Front, Item, Op, TaskSpec, Via};
use crate::gen;
use crate::mem::{KeyFamily, MemBuildCase, MemReadCase};
use crate::multi::{MKind, MTask, MultiCase, MEM_FRONTS_MAP, MEM_FRONTS_SET};
use crate::payload::PayloadCase;
use crate::restart::{Base, CorruptCase, Mutation};
use crate::rng::{mix, tag_of, Rng};
use crate::sink::{ErrKind, EvKind, Flip, Plan, Rest, Shape, WStep, INJECTABLE};

fn rng_for(cfg: &Cfg, idx: u64) -> Rng {
    Rng::new(mix(cfg.seed, tag_of(&cfg.prop), idx))
}

fn scaled(cfg: &Cfg, quick: u64, thorough: u64) -> u64 {
    let n = match cfg.tier {
        Tier::Quick => quick,
        Tier::Thorough => thorough,
    };
    std::cmp::max(1, (n as f64 * cfg.scale) as u64)
}

/// (sink write-call index or flush-call index, is_write, requested length)
/// for every sink event of a finished dry run, in event order.
fn event_map(run: &crate::build::BuildRun) -> Vec<(usize, bool, usize)> {
    let mut out = Vec::new();
    let (mut w, mut f) = (0usize, 0usize);
    for e in &run.sink.log {
        match e.kind {
            EvKind::Write => {
                if e.req > 0 {
                    out.push((w, true, e.req));
                    w += 1;
                } else {
                    out.push((usize::MAX, true, 0));
                }
            }
            EvKind::Flush => {
                out.push((f, false, 0));
                f += 1;
            }
        }
    }
    out
}

// ------------------------------------------------------------------- C07

pub fn c07_sizes(cfg: &Cfg) -> (u64, u64) {
    (scaled(cfg, 300, 5_000), scaled(cfg, 200_000, 6_000_000))
}

pub fn c07_long_runs(cfg: &Cfg) -> u64 {
    if matches!(cfg.tier, Tier::Thorough) { 8 } else { 2 }
}

pub fn c07(cfg: &Cfg, idx: u64, st: &mut Stats) {
    let (sweeps, _) = c07_sizes(cfg);
    let mut rng = rng_for(cfg, idx);
    if idx < sweeps {
        let (task, _) = gen::sweep_task(&mut rng, 10, 6);
        let bufcap = if rng.chance(1, 3) {
            Some(*rng.pick(&[0usize, 1, 3, 8, 17, 64, 300]))
        } else {
            None
        };
        let mut base = BuildCase { task, bufcap, prefill: vec![], plan: Plan::clean(), random: None };
        // how the file builds its io::Error values (message payload, bare
        // kind, errno): a retry request is one whatever it looks like inside
        base.plan.err_repr = crate::sink::ERR_REPRS[(idx % 3) as usize];
        let dry = run_build(&base);
        let writes: Vec<usize> =
            event_map(&dry).iter().filter(|e| e.1 && e.2 > 0).map(|e| e.2).collect();
        for cap in 1..=16usize {
            let mut c = base.clone();
            c.plan.rest = Rest::Cap(cap);
            if st.report("C07", &Case::Build(c)) {
                return;
            }
        }
        let w = std::cmp::min(writes.len(), 1000);
        for wi in 0..w {
            let len = writes[wi];
            let mut steps: Vec<WStep> = Vec::new();
            if len > 1 {
                steps.push(WStep::Accept(1));
            }
            if len > 2 {
                steps.push(WStep::Accept(len - 1));
            }
            steps.push(WStep::Intr);
            for s in steps {
                let mut c = base.clone();
                c.plan.writes = vec![WStep::Full; wi];
                c.plan.writes.push(s);
                if st.report("C07", &Case::Build(c)) {
                    return;
                }
            }
            // "any number of times": a long run of Interrupted before one
            // call, and a short acceptance followed by Interrupted
            {
                let mut c = base.clone();
                c.plan.writes = vec![WStep::Full; wi];
                let burst = [9usize, 17, 33][wi % 3];
                if len > 1 && wi % 2 == 0 {
                    c.plan.writes.push(WStep::Accept(1));
                }
                c.plan.writes.extend(std::iter::repeat(WStep::Intr).take(burst));
                if st.report("C07", &Case::Build(c)) {
                    return;
                }
            }
        }
        // "any number of times": one position gets 100 000 Interrupted in a
        // row (run on a thread with an ordinary 2 MiB stack)
        if w > 0 {
            let wi = rng.usize_below(w);
            let mut c = base.clone();
            c.plan.writes = vec![WStep::Full; wi];
            c.plan.writes.extend(std::iter::repeat(WStep::Intr).take(100_000));
            if st.report("C07", &Case::Build(c)) {
                return;
            }
        }
        *st
            .exhaustive_scopes
            .entry("sweep workload: every fixed cap 1..16 and every position of a single short write (1 and len-1 bytes) and of a single Interrupted".into())
            .or_insert(0) += 1;
    } else if idx < sweeps + c07_long_runs(cfg) {
        // "any number of times" over the LIFE of a builder: one long build
        // (millions of write calls) whose sink returns Interrupted once
        // before every call; never a burst, tens of millions in total in the
        // thorough tier
        let k = idx - sweeps;
        let n = if matches!(cfg.tier, Tier::Thorough) { [400_000u64, 1_500_000, 4_000_000, 400_000][(k % 4) as usize] } else { 400_000 };
        let lc = crate::multi::LongCase { n, seed: rng.next_u64(), valued: k % 2 == 0, short_every: if k % 3 == 1 { 0 } else { 7 } };
        st.report("C07", &Case::Long(lc));
    } else {
        let big = rng.chance(1, 16);
        let (task, _) = if rng.chance(1, 10) {
            gen::wide_task(&mut rng, false)
        } else {
            gen::legal_task(&mut rng, if big { 400 } else { 40 })
        };
        let mut case = BuildCase {
            task,
            bufcap: gen::bufcap(&mut rng),
            prefill: gen::prefill(&mut rng),
            plan: Plan::clean(),
            random: Some((gen::benign_shape(&mut rng), rng.next_u64())),
        };
        case.plan.vectored = rng.chance(1, 3);
        case.plan.err_repr = *rng.pick(&crate::sink::ERR_REPRS);
        if rng.chance(1, 10) {
            // "bytes_written() ALWAYS equals the number of bytes the sink has
            // accepted so far": also right after a call that failed half-way
            // through a buffer. One hard fault somewhere; only the byte
            // counter invariant is judged in such a run.
            case.bufcap = None;
            case.plan.fault_write = Some((rng.usize_below(300), WStep::Err(gen::err_kind(&mut rng))));
        }
        st.report("C07", &Case::Build(case));
    }
}

// ------------------------------------------------------------------- C01

pub fn c01_sizes(cfg: &Cfg) -> (u64, u64) {
    // (big runs, random runs)
    (scaled(cfg, 3, 6), scaled(cfg, 150_000, 10_000_000))
}

const C01_UNIVERSE: [&[u8]; 6] = [b"", b"a", b"aa", b"ab", b"b", b"ba"];
const C01_VALUES: [u64; 3] = [0, 1, 256];
const C01_GEOS: [Option<(usize, usize)>; 4] = [Some((0, 0)), Some((1, 1)), Some((2, 2)), Some((3, 3))];
/// every map over the 6-key universe with values in {0, 1, 256} (4^6) x 4 geometries
pub const C01_EXHAUSTIVE: u64 = 4096 * 4;

fn c01_exhaustive_case(e: u64) -> BuildCase {
    let geo = C01_GEOS[(e % 4) as usize];
    let mut code = e / 4;
    let mut items: Vec<Item> = Vec::new();
    for k in C01_UNIVERSE.iter() {
        let c = code % 4;
        code /= 4;
        if c > 0 {
            items.push((k.to_vec(), C01_VALUES[(c - 1) as usize]));
        }
    }
    let ops = if e % 8 < 4 {
        items.iter().map(|(k, v)| Op::Ins(k.clone(), *v)).collect()
    } else {
        vec![Op::ExtIter(items.clone())]
    };
    BuildCase::clean(TaskSpec { front: Front::Map, registry: geo, ops, fin: Fin::IntoInner })
}

pub const C01_DELTAS: [u64; 11] = [
    255,
    256,
    257,
    65_535,
    65_536,
    65_537,
    (1 << 24) - 1,
    1 << 24,
    (1 << 24) + 1,
    1_000_000,
    4_000,
];

pub fn c01(cfg: &Cfg, idx: u64, st: &mut Stats) {
    let (bigs, _) = c01_sizes(cfg);
    let dstart = bigs + C01_EXHAUSTIVE;
    if idx >= dstart && idx < dstart + C01_DELTAS.len() as u64 {
        let target = C01_DELTAS[(idx - dstart) as usize];
        let seed = mix(cfg.seed, tag_of("C01.delta"), target);
        st.report("C01", &Case::Delta(crate::mem::DeltaCase { target, seed }));
        return;
    }
    if idx == dstart + C01_DELTAS.len() as u64 || idx == dstart + C01_DELTAS.len() as u64 + 1 {
        // dense families: far more keys than bytes (complete 256-ary and
        // 10-ary trees), reopened and enumerated
        let second = idx != dstart + C01_DELTAS.len() as u64;
        let (f, l) = if second { (10u32, 5u32) } else { (256, 2) };
        let case = MemBuildCase {
            fam: KeyFamily { n: (f as u64).pow(l), fanout: f, keylen: l, seed: 1, pairs: false, leaf_fan: 0, decreasing: false, repeat: 1, sec_vocab: 0, sec_parents: 0 },
            map: second,
            registry: None,
            bufcap: None,
            every: 1000,
            shape: Shape::Full,
            bulk: false,
            bulk_stream: false,
            rejects: 0,
            reject_run: 0,
            threads: 1,
            prologue: 0,
        };
        st.report("C01", &Case::MemBuild(case));
        return;
    }
    let hstart = dstart + C01_DELTAS.len() as u64 + 2;
    if idx >= hstart && idx < hstart + HUGE_KEY_LENS.len() as u64 {
        // "keys of any length": one key of 64 KiB .. 1 MiB (+-1) among short ones
        st.count("probe.key_of_64KiB_to_1MiB", 1);
        st.report("C01", &Case::Build(huge_key_case((idx - hstart) * 7 % 18, false)));
        return;
    }
    if idx >= bigs && idx < bigs + C01_EXHAUSTIVE {
        let e = idx - bigs;
        st.report("C01", &Case::Build(c01_exhaustive_case(e)));
        if e == C01_EXHAUSTIVE - 1 {
            st.notes.insert(
                "exhaustive_small_scope".into(),
                serde_json::json!("every map over the key universe {\"\",a,aa,ab,b,ba} with values in {0,1,256} (4096 maps) x cache geometries (0,0),(1,1),(2,2),(3,3)"),
            );
        }
        return;
    }
    let mut rng = rng_for(cfg, idx);
    if idx < bigs {
        let n = match cfg.tier {
            Tier::Quick => 100_000,
            Tier::Thorough => 3_000_000,
        };
        let fanout = *rng.pick(&[2u32, 26, 256]);
        let fam = KeyFamily { n, fanout, keylen: 14, seed: rng.next_u64(), pairs: idx % 2 == 1, leaf_fan: 0, decreasing: false, repeat: 1, sec_vocab: 0, sec_parents: 0 };
        let case = MemBuildCase {
            fam,
            map: idx % 2 == 0,
            registry: if idx % 3 == 0 { None } else { gen::geometry(&mut rng) },
            bufcap: None,
            every: 1000,
            shape: Shape::Random { short_16: 3, intr_16: 1 },
            bulk: false,
            bulk_stream: false,
            rejects: 0,
            reject_run: 0,
            threads: 1,
            prologue: 0,
        };
        st.report("C01", &Case::MemBuild(case));
        return;
    }
    let big = rng.chance(1, 8);
    let (task, _) = if rng.chance(1, 8) {
        gen::wide_task(&mut rng, false)
    } else if rng.chance(1, 16) {
        st.count("probe.c01_sibling_nodes_with_equal_fnv64", 1);
        gen::fnv_colliding_task(&mut rng)
    } else {
        gen::legal_task(&mut rng, if big { 400 } else { 40 })
    };
    let shape = if rng.chance(1, 2) { Shape::Full } else { gen::benign_shape(&mut rng) };
    let mut task = task;
    if rng.chance(1, 12) {
        // every key 60..130 bytes longer (a common prefix): short random
        // tails over a small alphabet then make consecutive long keys that
        // are prefixes / extensions / near copies of each other
        let plen = *rng.pick(&[60usize, 63, 64, 65, 100, 127, 128, 130]);
        let prefix: Vec<u8> = (0..plen).map(|i| b'a' + (i % 5) as u8).collect();
        gen::lengthen(&mut task.ops, &prefix);
        st.count("probe.c01_all_keys_longer_than_60_bytes", 1);
    }
    let case = BuildCase {
        task,
        bufcap: if rng.chance(1, 4) { gen::bufcap(&mut rng) } else { None },
        prefill: vec![],
        plan: Plan::clean(),
        random: Some((shape, rng.next_u64())),
    };
    st.report("C01", &Case::Build(case));
}


/// Lengths around internal-looking thresholds for ONE very long key.
pub const HUGE_KEY_LENS: [usize; 6] = [65_535, 65_537, (1 << 20) - 1, 1 << 20, (1 << 20) + 1, (1 << 20) + 77];

/// A small world around one very long key K (a run of one byte): short keys
/// before and after it, K + one byte, and — with `illegal` — the calls a
/// builder must refuse right after K (a short smaller key, the empty key, K's
/// proper prefix, K itself once more).
fn huge_key_case(which: u64, illegal: bool) -> BuildCase {
    let len = HUGE_KEY_LENS[(which % HUGE_KEY_LENS.len() as u64) as usize];
    let front = [Front::Map, Front::Set, Front::Raw][((which / HUGE_KEY_LENS.len() as u64) % 3) as usize];
    let valued = front != Front::Set;
    let k1: Vec<u8> = vec![b'b'; len];
    let mut k2 = k1.clone();
    k2.push(b'c');
    let v = |x: u64| if valued { x } else { 0 };
    let mut ops = vec![Op::Ins(b"a".to_vec(), v(5)), Op::Ins(k1.clone(), v(70_000))];
    if illegal {
        ops.push(Op::Ins(b"a".to_vec(), v(1)));
        ops.push(Op::Ins(Vec::new(), v(2)));
        ops.push(Op::Ins(k1[..len - 1].to_vec(), v(3)));
        ops.push(Op::Ins(k1.clone(), v(4)));
        ops.push(Op::Ins(b"b".to_vec(), v(6)));
    }
    ops.push(Op::Ins(k2, v(1 << 33)));
    ops.push(Op::Ins(b"c".to_vec(), v(9)));
    if illegal {
        ops.push(Op::Ins(k1, v(8)));
    }
    BuildCase::clean(TaskSpec { front, registry: None, ops, fin: Fin::IntoInner })
}

// ------------------------------------------------------------------- C06

const UNIVERSE: [&[u8]; 5] = [b"", b"a", b"aa", b"ab", b"b"];
pub const C06_VARIANTS: u64 = 12;

pub fn c06_exhaustive_len(cfg: &Cfg) -> u32 {
    match cfg.tier {
        Tier::Quick => 5,
        Tier::Thorough => 6,
    }
}

pub fn c06_histories(maxlen: u32) -> u64 {
    (0..=maxlen).map(|l| 5u64.pow(l)).sum()
}

pub fn c06_sizes(cfg: &Cfg) -> (u64, u64) {
    let ex = C06_VARIANTS * c06_histories(c06_exhaustive_len(cfg));
    (ex, scaled(cfg, 100_000, 5_000_000))
}

fn c06_exhaustive_case(mut h: u64, variant: u64, maxlen: u32) -> BuildCase {
    // decode history number h into (length, digits)
    let mut len = 0u32;
    loop {
        let n = 5u64.pow(len);
        if h < n || len == maxlen {
            break;
        }
        h -= n;
        len += 1;
    }
    let mut keys: Vec<Vec<u8>> = Vec::new();
    for _ in 0..len {
        keys.push(UNIVERSE[(h % 5) as usize].to_vec());
        h /= 5;
    }
    let items: Vec<Item> =
        keys.iter().enumerate().map(|(i, k)| (k.clone(), (i as u64 + 1) * 3)).collect();
    let (front, ops): (Front, Vec<Op>) = match variant {
        0 => (Front::Map, items.iter().map(|(k, v)| Op::Ins(k.clone(), *v)).collect()),
        1 => (Front::Set, items.iter().map(|(k, _)| Op::Ins(k.clone(), 0)).collect()),
        2 => (Front::Raw, items.iter().map(|(k, v)| Op::Ins(k.clone(), *v)).collect()),
        3 => (Front::Raw, items.iter().map(|(k, _)| Op::Add(k.clone())).collect()),
        4 => (Front::Map, vec![Op::ExtIter(items.clone())]),
        5 => (Front::Set, vec![Op::ExtStream(items.iter().map(|(k, _)| (k.clone(), 0)).collect(), Via::Vec)]),
        6 => (Front::Raw, vec![Op::ExtStream(items.clone(), Via::Vec)]),
        _ => (Front::Set, vec![Op::ExtIter(items.iter().map(|(k, _)| (k.clone(), 0)).collect())]),
    };
    let registry = match (h + variant + len as u64) % 3 {
        0 => Some((1, 1)),
        1 => Some((2, 2)),
        _ => Some((0, 0)),
    };
    BuildCase::clean(TaskSpec { front, registry, ops, fin: Fin::IntoInner })
}

/// One illegal-or-legal key relative to the model's last accepted key.
fn history_key(rng: &mut Rng, last: &Option<Vec<u8>>, err_pct: u64, alphabet: &[u8]) -> Vec<u8> {
    let illegal = rng.below(100) < err_pct;
    match (illegal, last) {
        (true, Some(l)) => match rng.below(5) {
            0 => l.clone(), // duplicate
            1 => vec![],    // empty after non-empty (or duplicate of empty)
            2 if !l.is_empty() => l[..rng.usize_below(l.len())].to_vec(), // proper prefix
            3 if !l.is_empty() => {
                // smaller at some position
                let mut k = l.clone();
                let p = rng.usize_below(k.len());
                if k[p] > 0 {
                    k[p] = (rng.below(k[p] as u64)) as u8;
                    k.truncate(p + 1 + rng.usize_below(2));
                    k
                } else {
                    l[..p].to_vec()
                }
            }
            _ => {
                let mut k: Vec<u8> = (0..rng.urange(0, 3)).map(|_| *rng.pick(alphabet)).collect();
                if &k >= l {
                    k = l.clone();
                }
                k
            }
        },
        (_, None) => {
            let n = rng.urange(0, 3);
            (0..n).map(|_| *rng.pick(alphabet)).collect()
        }
        (false, Some(l)) => {
            // strictly greater: extend, or bump a byte
            let mut k = l.clone();
            match rng.below(3) {
                0 => {
                    k.push(*rng.pick(alphabet));
                }
                _ => {
                    let mut done = false;
                    while let Some(b) = k.pop() {
                        if b < 255 {
                            let nb = b + 1 + rng.below((255 - b) as u64) as u8;
                            k.push(nb);
                            done = true;
                            break;
                        }
                    }
                    if !done {
                        k = l.clone();
                        k.push(0);
                    } else if rng.chance(1, 2) {
                        k.push(*rng.pick(alphabet));
                    }
                }
            }
            k
        }
    }
}

pub fn c06(cfg: &Cfg, idx: u64, st: &mut Stats) {
    let (ex, _) = c06_sizes(cfg);
    if idx < ex {
        let maxlen = c06_exhaustive_len(cfg);
        let per = c06_histories(maxlen);
        let variant = idx / per;
        let h = idx % per;
        if variant >= 8 {
            // the one-call entry points: the whole history is the argument
            let base = c06_exhaustive_case(h, 0, maxlen);
            let items: Vec<Item> = base
                .task
                .ops
                .iter()
                .map(|o| match o {
                    Op::Ins(k, v) => (k.clone(), *v),
                    _ => unreachable!(),
                })
                .collect();
            let entry = [
                crate::multi::MemFront::SetFromIter,
                crate::multi::MemFront::MapFromIter,
                crate::multi::MemFront::FstFromIterSet,
                crate::multi::MemFront::FstFromIterMap,
            ][(variant - 8) as usize];
            st.report("C06", &Case::FromIter(crate::multi::FromIterCase { entry, items, hint: (h % 4) as u8 }));
        } else {
            let case = c06_exhaustive_case(h, variant, maxlen);
            st.report("C06", &Case::Build(case));
        }
        if idx == ex - 1 {
            st.notes.insert(
                "exhaustive_histories".into(),
                serde_json::json!(format!(
                    "all {} call histories of length <= {} over the key universe {{\"\",a,aa,ab,b}} for each of {} front-end variants",
                    per, maxlen, C06_VARIANTS
                )),
            );
        }
        return;
    }
    if idx >= ex && idx < ex + 9 {
        // the ordering contract around ONE very long accepted key (64 KiB ..
        // 1 MiB, +-1): what is refused right after it, and what is accepted
        st.count("probe.key_of_64KiB_to_1MiB", 1);
        st.report("C06", &Case::Build(huge_key_case((idx - ex) * 5 % 18, true)));
        return;
    }
    let mut rng = rng_for(cfg, idx);
    let valued = rng.chance(2, 3);
    let front = gen::front(&mut rng, valued);
    let err_pct = *rng.pick(&[0u64, 5, 10, 20, 40, 60]);
    let alphabet: Vec<u8> = match rng.below(3) {
        0 => b"ab".to_vec(),
        1 => b"abcxyz".to_vec(),
        _ => vec![0, 1, b'a', 0x80, 0xff],
    };
    let nops = match rng.below(4) {
        0 => rng.urange(1, 5),
        1 | 2 => rng.urange(3, 30),
        _ => rng.urange(20, 200),
    };
    // the generator tracks what the contract model will accept so that it
    // can aim keys at each rejection class
    let mut model = crate::model::Contract::new();
    let mut ops: Vec<Op> = Vec::new();
    let mut val = 0u64;
    let mut next_item = |rng: &mut Rng, model: &mut crate::model::Contract, add: bool| -> Item {
        let k = history_key(rng, &model.last, err_pct, &alphabet);
        val += 1;
        let v = if !valued {
            0
        } else if rng.chance(1, 4) {
            *rng.pick(&[0u64, 255, 256, 65535, 65536, u64::MAX])
        } else {
            val
        };
        if front == Front::Set || add {
            model.add(&k);
        } else {
            model.insert(&k, v);
        }
        (k, v)
    };
    for _ in 0..nops {
        match rng.below(8) {
            0 => {
                let n = rng.urange(0, 6);
                let mut items = Vec::new();
                for _ in 0..n {
                    let before = model.accepted.len();
                    let last_before = model.last.clone();
                    let it = next_item(&mut rng, &mut model, false);
                    let rejected = model.accepted.len() == before
                        && !(front == Front::Set && Some(&it.0) == last_before.as_ref());
                    items.push(it);
                    if rejected {
                        // items after a rejection are never looked at; add
                        // one or two anyway to check that they are not
                        for _ in 0..rng.urange(0, 2) {
                            items.push((vec![b'z', b'z', b'z'], 7));
                        }
                        break;
                    }
                }
                if rng.chance(1, 2) {
                    ops.push(Op::ExtIter(items));
                } else {
                    let via = *rng.pick(&[Via::Vec, Via::Vec, Via::Fst, Via::Range, Via::Union]);
                    ops.push(Op::ExtStream(items, via));
                }
            }
            1 if front == Front::Raw => {
                let (k, _) = next_item(&mut rng, &mut model, true);
                ops.push(Op::Add(k));
            }
            _ => {
                let (k, v) = next_item(&mut rng, &mut model, false);
                ops.push(Op::Ins(k, v));
            }
        }
    }
    if rng.chance(1, 6) {
        // exception safety: the caller's iterator / stream panics inside one
        // of the bulk calls (after some items were accepted); the caller
        // catches the panic and goes on using the same builder
        let bulk: Vec<usize> = ops
            .iter()
            .enumerate()
            .filter(|(_, o)| matches!(o, Op::ExtIter(_) | Op::ExtStream(_, Via::Vec)))
            .map(|(i, _)| i)
            .collect();
        if !bulk.is_empty() {
            let oi = bulk[rng.usize_below(bulk.len())];
            if let Op::ExtIter(items) | Op::ExtStream(items, _) = &mut ops[oi] {
                let at = rng.usize_below(items.len() + 1);
                items.insert(at, (crate::front::PANIC_KEY.to_vec(), 0));
                st.count("probe.c06_key_source_panics_inside_a_bulk_call", 1);
            }
        }
    }
    if rng.chance(1, 16) {
        // long keys: a common prefix of more than 1 KiB in front of every key
        // (error payloads must carry the offending keys in full)
        let plen = *rng.pick(&[1000usize, 1023, 1024, 1025, 1500, 2040]);
        let prefix: Vec<u8> = (0..plen).map(|i| b'a' + (i % 7) as u8).collect();
        let lengthen = |k: &Vec<u8>| -> Vec<u8> {
            let mut x = prefix.clone();
            x.extend_from_slice(k);
            x
        };
        for o in ops.iter_mut() {
            match o {
                Op::Ins(k, _) | Op::Add(k) => *k = lengthen(k),
                Op::ExtIter(it) | Op::ExtStream(it, _) => {
                    for (k, _) in it.iter_mut() {
                        *k = lengthen(k);
                    }
                }
            }
        }
    }
    if rng.chance(1, 8) {
        // flatten the history into the argument of a from_iter call
        let mut items: Vec<Item> = Vec::new();
        for o in &ops {
            match o {
                Op::Ins(k, v) => items.push((k.clone(), *v)),
                Op::Add(k) => items.push((k.clone(), 0)),
                Op::ExtIter(it) | Op::ExtStream(it, _) => items.extend(it.iter().cloned()),
            }
        }
        let entry = if front == Front::Set {
            *rng.pick(&[crate::multi::MemFront::SetFromIter, crate::multi::MemFront::FstFromIterSet])
        } else {
            *rng.pick(&[crate::multi::MemFront::MapFromIter, crate::multi::MemFront::FstFromIterMap])
        };
        st.report("C06", &Case::FromIter(crate::multi::FromIterCase { entry, items, hint: rng.below(4) as u8 }));
        return;
    }
    let case = BuildCase {
        task: TaskSpec { front, registry: gen::geometry(&mut rng), ops, fin: gen::fin(&mut rng) },
        bufcap: if rng.chance(1, 3) { gen::bufcap(&mut rng) } else { None },
        prefill: vec![],
        plan: Plan::clean(),
        random: Some((gen::benign_shape(&mut rng), rng.next_u64())),
    };
    st.report("C06", &Case::Build(case));
}

// ------------------------------------------------------------------- C11

pub fn c11_sizes(cfg: &Cfg) -> u64 {
    scaled(cfg, 300, 10_000)
}

pub fn c11(cfg: &Cfg, idx: u64, st: &mut Stats) {
    let mut rng = rng_for(cfg, idx);
    if idx < 10 {
        // multi-MiB builds: the first flush call fails whenever it comes, or
        // a write fails deep into the build (cache full, evictions running);
        // indices 6..9: a set, and the sink returns Ok(0) for the first write
        // of 3..7 bytes far into the output (an address more than 64 KiB back)
        let n = match cfg.tier {
            Tier::Quick => 250_000,
            Tier::Thorough => 3_000_000,
        };
        let case = MemBuildCase {
            fam: KeyFamily { n, fanout: 26, keylen: 12, seed: rng.next_u64(), pairs: idx == 1, leaf_fan: 0, decreasing: false, repeat: 1, sec_vocab: 0, sec_parents: 0 },
            map: idx % 2 == 0 && idx < 6,
            registry: [None, Some((64, 2)), Some((3, 3))][(idx % 3) as usize],
            bufcap: if idx == 2 { Some(8192) } else { None },
            // 0 = fail the first flush; otherwise fail this write call
            every: if idx < 3 { 0 } else if idx >= 6 { 300_000 + rng.below(n) * 3 } else { 50_000 + rng.below(n) * 2 },
            shape: if idx >= 8 { Shape::Full } else { Shape::Random { short_16: 2, intr_16: 1 } },
            bulk: false,
            bulk_stream: false,
            rejects: (idx >= 6) as u32,
            reject_run: 0,
            threads: 1,
            prologue: 0,
        };
        st.report("C11", &Case::MemBuild(case));
        return;
    }
    let (mut task, _) = gen::sweep_task(&mut rng, 12, 8);
    if idx % 5 == 4 {
        // keys that are text: long, valid UTF-8, multi-byte characters across
        // every round offset (whatever the error path does with the key of
        // the failing call, it must not panic)
        gen::textify(&mut task.ops, &mut rng);
        st.count("probe.c11_keys_are_long_utf8_text", 1);
    }
    // three layerings: alone / with short writes / behind a BufWriter
    let layering = idx % 3;
    let base = BuildCase {
        task,
        bufcap: if layering == 2 { Some(*rng.pick(&[1usize, 8, 17, 64, 300, 8192])) } else { None },
        prefill: vec![],
        plan: Plan::clean(),
        random: if layering >= 1 {
            Some((
                *rng.pick(&[
                    Shape::Cap(1),
                    Shape::Cap(3),
                    Shape::Random { short_16: 8, intr_16: 2 },
                    Shape::Random { short_16: 16, intr_16: 0 },
                ]),
                rng.next_u64(),
            ))
        } else {
            None
        },
    };
    let mut base = base;
    // every representation of an io::Error (text payload, bare kind, errno,
    // a payload that is itself an fst::Error) is an I/O failure of the sink
    base.plan.err_repr = crate::sink::ERR_REPRS[((idx / 3) % 4) as usize];
    let dry = run_build(&base);
    let explicit = crate::exec::explicit_build(&base, dry.sink.recorded_plan());
    // the fault-free configuration must itself satisfy O4
    if st.report("C11", &Case::Build(explicit.clone())) {
        return;
    }
    let evs = event_map(&dry);
    let n_ev = std::cmp::min(evs.len(), 1000);
    for e in 0..n_ev {
        let (ci, is_write, req) = evs[e];
        if is_write && req == 0 {
            continue;
        }
        let mut kinds: Vec<Option<ErrKind>> = INJECTABLE.iter().map(|k| Some(*k)).collect();
        if is_write {
            kinds.push(None); // Ok(0)
        } else {
            // a flush that reports Interrupted has failed all the same
            kinds.push(Some(ErrKind::Interrupted));
        }
        for k in kinds {
            // transient: only this call fails
            let mut c = explicit.clone();
            if is_write {
                c.plan.fault_write = Some((
                    ci,
                    match k {
                        Some(k) => WStep::Err(k),
                        None => WStep::Zero,
                    },
                ));
            } else {
                c.plan.fault_flush = Some((ci, k.unwrap()));
            }
            if st.report("C11", &Case::Build(c)) {
                return;
            }
            // sticky: this call and every later one fail
            if let Some(k) = k.filter(|k| *k != ErrKind::Interrupted) {
                let mut c = explicit.clone();
                c.plan.sticky = Some((e as u64, k));
                if st.report("C11", &Case::Build(c)) {
                    return;
                }
            }
        }
    }
    *st
        .exhaustive_scopes
        .entry("workload: every sink call index (writes and flushes) x 7 error kinds + Ok(0) x {transient, sticky}".into())
        .or_insert(0) += 1;
}

// ------------------------------------------------------------------- C20

pub fn c20_sizes(cfg: &Cfg) -> (u64, u64) {
    (scaled(cfg, 300, 30_000), scaled(cfg, 200_000, 20_000_000))
}

fn garbage_tail(rng: &mut Rng, total_len: usize) -> Vec<u8> {
    // [len u64][root addr u64][checksum u32]
    let l = total_len as u64;
    let roots = [
        0u64,
        1,
        l.wrapping_sub(22),
        l.wrapping_sub(21),
        l.wrapping_sub(20),
        l.wrapping_sub(17),
        l.wrapping_sub(16),
        l,
        l + 1,
        1 << 63,
        u64::MAX,
        u64::MAX - 20,
        u64::MAX - 21,
        rng.next_u64(),
    ];
    let lens = [0u64, 1, l, u64::MAX, 1 << 32, rng.next_u64()];
    let mut t = Vec::new();
    t.extend_from_slice(&rng.pick(&lens).to_le_bytes());
    t.extend_from_slice(&rng.pick(&roots).to_le_bytes());
    t.extend_from_slice(&(rng.next_u64() as u32).to_le_bytes());
    t
}

fn random_mutation(rng: &mut Rng, len: usize) -> Mutation {
    let len1 = std::cmp::max(1, len);
    match rng.below(6) {
        0 | 1 => Mutation::Subst { pos: biased_pos(rng, len1), val: rng.next_u64() as u8 },
        2 => Mutation::Burst {
            pos: biased_pos(rng, len1),
            bytes: (0..rng.urange(2, 4)).map(|_| rng.next_u64() as u8).collect(),
        },
        3 => Mutation::Truncate { len: biased_pos(rng, len1 + 1) },
        4 => Mutation::Tail { bytes: garbage_tail(rng, len) },
        _ => Mutation::Version { v: *rng.pick(&[0u64, 1, 2, 3, 4, 255, 1 << 32, u64::MAX]) },
    }
}

/// Positions biased to the header, the footer and the last node.
fn biased_pos(rng: &mut Rng, len: usize) -> usize {
    match rng.below(4) {
        0 => rng.usize_below(std::cmp::min(len, 16)),
        1 => len - 1 - rng.usize_below(std::cmp::min(len, 24)),
        _ => rng.usize_below(len),
    }
}

pub fn c20(cfg: &Cfg, idx: u64, st: &mut Stats) {
    let (sweeps, _) = c20_sizes(cfg);
    let mut rng = rng_for(cfg, idx);
    if idx == sweeps {
        // one artifact above 1 MiB: every footer field at its boundary
        // values, with and without a recomputed checksum, truncations around
        // the end, and the older format versions (size thresholds in open /
        // verify must not turn garbage into a panic)
        let fam = KeyFamily { n: 110_000, fanout: 26, keylen: 12, seed: rng.next_u64(), pairs: false, leaf_fan: 0, decreasing: false, repeat: 1, sec_vocab: 0, sec_parents: 0 };
        let mut b = fst::MapBuilder::memory();
        let mut key = Vec::new();
        for i in 0..fam.n {
            fam.key_into(i, &mut key);
            b.insert(&key, i).expect("harness: big artifact");
        }
        let bytes = b.into_inner().expect("harness: big artifact");
        let l = bytes.len() as u64;
        let mut n = 0u64;
        let mut roots: Vec<u64> = (0..=24).map(|d| l - d).collect();
        roots.extend_from_slice(&[0, 1, 15, 16, l + 1, 1 << 63, u64::MAX, u64::MAX - 20, l / 2]);
        for (ri, root) in roots.iter().enumerate() {
            for len_field in [fam.n, 0, u64::MAX] {
                for variant in 0..4 {
                    let mut m = bytes.clone();
                    let e = m.len();
                    let mut tail = Vec::new();
                    tail.extend_from_slice(&len_field.to_le_bytes());
                    tail.extend_from_slice(&root.to_le_bytes());
                    match variant {
                        0 | 1 => {
                            m[e - 20..e - 4].copy_from_slice(&tail);
                            if variant == 1 {
                                crate::restart::apply(&mut m, &Mutation::FixChecksum);
                            }
                        }
                        _ => {
                            // as a version 1 / 2 file: footer is the last 16 bytes
                            crate::restart::apply(&mut m, &Mutation::Downgrade { v: variant as u64 - 1 });
                            let e = m.len();
                            m[e - 16..].copy_from_slice(&tail);
                        }
                    }
                    n += 1;
                    if let Some(_v) = crate::restart::check_c20_bytes(&m) {
                        // make it an explicit, replayable case
                        let mut muts = vec![];
                        if variant >= 2 {
                            muts.push(Mutation::Downgrade { v: variant as u64 - 1 });
                        }
                        let mut t = tail.clone();
                        if variant < 2 {
                            t.extend_from_slice(&m[m.len() - 4..]);
                        }
                        muts.push(Mutation::Tail { bytes: t });
                        let cc = CorruptCase { base: Base::Raw(bytes.clone()), muts };
                        st.report("C20", &Case::Corrupt(cc));
                        return;
                    }
                    let _ = ri;
                }
            }
        }
        for cut in [1usize, 3, 4, 5, 19, 20, 21, 36] {
            let m = &bytes[..bytes.len() - cut];
            n += 1;
            if crate::restart::check_c20_bytes(m).is_some() {
                let cc = CorruptCase { base: Base::Raw(bytes.clone()), muts: vec![Mutation::Truncate { len: bytes.len() - cut }] };
                st.report("C20", &Case::Corrupt(cc));
                return;
            }
        }
        let mut d = crate::rng::Digest::new();
        d.bytes(&bytes[..4096]);
        st.bulk(d.finish(), n);
        st.count("corrupt.boundary_footers_on_artifact_above_1MiB", n);
        return;
    }
    if idx == sweeps + 2 {
        // a file just above 4 GiB (2^32 + 4: the checksummed region is 2^32
        // bytes) that opens: 32-bit offsets or lengths anywhere in open /
        // verify. First pass only (the checked build turns a wrapped counter
        // into a panic; without checks it could become a loop that never ends).
        if crate::driver::build_profile() != "plain" {
            let task = TaskSpec { front: Front::Set, registry: None, ops: vec![Op::Ins(b"a".to_vec(), 0)], fin: Fin::IntoInner };
            let cc = CorruptCase { base: Base::Build(task), muts: vec![Mutation::PadTo { len: (1u64 << 32) + 4 }] };
            st.count("probe.c20_file_of_2pow32_plus_4_bytes", 1);
            st.report("C20", &Case::Corrupt(cc));
        }
        return;
    }
    if idx == sweeps + 1 {
        // files of "round" sizes: 2^k + d for k = 12..23 and m MiB + d, each
        // with a version-3 header and a footer that opens (root address =
        // size - 21), once with a wrong and once with the right checksum, so
        // that verify() runs over the whole body. Size thresholds, block or
        // window arithmetic in open / verify must not turn a size into a panic.
        let mut sizes: Vec<usize> = Vec::new();
        for k in 12..=23u32 {
            for d in -8i64..=8 {
                sizes.push(((1i64 << k) + d) as usize);
            }
        }
        for m in [3usize, 5, 6, 7] {
            for d in [-1i64, 0, 1, 3, 4, 5, 8] {
                sizes.push(((m << 20) as i64 + d) as usize);
            }
        }
        let fill = rng.next_u64();
        let mut n = 0u64;
        for sz in sizes {
            let mut m: Vec<u8> = Vec::with_capacity(sz);
            let mut x = fill ^ sz as u64;
            while m.len() + 8 <= sz {
                x = x.wrapping_mul(0x9E37_79B9_7F4A_7C15).rotate_left(23) ^ 0x5851_F42D_4C95_7F2D;
                m.extend_from_slice(&x.to_le_bytes());
            }
            m.resize(sz, 0x5a);
            m[..8].copy_from_slice(&3u64.to_le_bytes());
            m[8..16].copy_from_slice(&0u64.to_le_bytes());
            let mut tail = Vec::new();
            tail.extend_from_slice(&1u64.to_le_bytes());
            tail.extend_from_slice(&((sz - 21) as u64).to_le_bytes());
            m[sz - 20..sz - 4].copy_from_slice(&tail);
            for fixed in [false, true] {
                if fixed {
                    crate::restart::apply(&mut m, &Mutation::FixChecksum);
                }
                n += 1;
                if crate::restart::check_c20_bytes(&m).is_some() {
                    st.report("C20", &Case::Corrupt(CorruptCase { base: Base::Raw(m.clone()), muts: vec![] }));
                    return;
                }
            }
        }
        let mut d = crate::rng::Digest::new();
        d.u64(fill);
        st.bulk(d.finish(), n);
        st.count("corrupt.openable_files_of_round_sizes_4KiB_to_8MiB", n);
        return;
    }
    if idx < sweeps {
        let (task, _) = gen::sweep_task(&mut rng, 10, 8);
        let base = BuildCase {
            task,
            bufcap: if rng.chance(1, 2) { Some(*rng.pick(&[1usize, 8, 20, 64, 300, 8192])) } else { None },
            prefill: vec![],
            plan: Plan::clean(),
            random: Some((gen::benign_shape(&mut rng), rng.next_u64())),
        };
        let dry = run_build(&base);
        let explicit = crate::exec::explicit_build(&base, dry.sink.recorded_plan());
        let evs = event_map(&dry);
        for e in 0..std::cmp::min(evs.len(), 1000) {
            let (_, is_write, req) = evs[e];
            let mut torns = vec![0usize];
            if is_write && req > 0 {
                torns.extend_from_slice(&[1, req / 2, req.saturating_sub(1), req]);
                torns.sort();
                torns.dedup();
            }
            for t in torns {
                let mut c = explicit.clone();
                c.plan.crash = Some((e as u64, t));
                let cc = CorruptCase { base: Base::Survivor(c), muts: vec![] };
                if st.report("C20", &Case::Corrupt(cc)) {
                    return;
                }
            }
        }
        *st
            .exhaustive_scopes
            .entry("sweep workload: crash at every sink event x survivor kinds {durable prefix, torn in-flight write (1, half, len-1, len bytes), lost BufWriter buffer}".into())
            .or_insert(0) += 1;
        return;
    }
    let cc = match rng.below(8) {
        // crash at a drawn event, then optional corruption / garbage footer
        0 | 1 | 2 => {
            let (task, _) = gen::legal_task(&mut rng, 30);
            let mut c = BuildCase {
                task,
                bufcap: gen::bufcap(&mut rng),
                prefill: vec![],
                plan: Plan::clean(),
                random: Some((gen::benign_shape(&mut rng), rng.next_u64())),
            };
            let ev = match rng.below(4) {
                0 => rng.below(4),          // inside the header
                1 => rng.below(40),
                _ => rng.below(400),
            };
            c.plan.crash = Some((ev, rng.usize_below(9)));
            let mut muts = Vec::new();
            if rng.chance(1, 2) {
                muts.push(random_mutation(&mut rng, 64));
            }
            CorruptCase { base: Base::Survivor(c), muts }
        }
        // a complete artifact, mutated 1..3 times
        3 | 4 => {
            let (task, _) = match rng.below(8) {
                0 => gen::wide_task(&mut rng, false),
                // larger artifacts (several KiB): code that only runs above
                // a size threshold, and misaligned placement (see probe)
                1 => gen::legal_task(&mut rng, 400),
                _ => gen::legal_task(&mut rng, 20),
            };
            let n = rng.urange(0, 3);
            let mut muts: Vec<Mutation> = Vec::new();
            if rng.chance(1, 4) {
                // the same data as an older format version, then damaged
                muts.push(Mutation::Downgrade { v: *rng.pick(&[1u64, 2, 2]) });
            }
            for _ in 0..n {
                muts.push(random_mutation(&mut rng, 120));
            }
            CorruptCase { base: Base::Build(task), muts }
        }
        // boundary headers / footers of length 0..64
        5 | 6 => {
            let len = match rng.below(4) {
                0 => rng.urange(0, 40),
                1 => *rng.pick(&[31usize, 32, 33, 35, 36, 37, 38, 39, 40, 52, 56, 57]),
                _ => rng.urange(0, 64),
            };
            let mut b: Vec<u8> = (0..len).map(|_| if rng.chance(1, 2) { 0 } else { rng.next_u64() as u8 }).collect();
            let version = *rng.pick(&[0u64, 1, 1, 2, 2, 3, 3, 3, 4, u64::MAX]);
            if b.len() >= 8 {
                b[..8].copy_from_slice(&version.to_le_bytes());
            }
            let tail = garbage_tail(&mut rng, len);
            // version 1/2 files have no checksum: footer is the last 16 bytes
            let tail: Vec<u8> = if version <= 2 && rng.chance(1, 2) { tail[..16].to_vec() } else { tail };
            if b.len() >= tail.len() {
                let s = b.len() - tail.len();
                b[s..].copy_from_slice(&tail);
            }
            CorruptCase { base: Base::Raw(b), muts: vec![] }
        }
        // a well-placed footer in front of node-shaped bytes: the root
        // address is exactly where a root node would end, and the bytes
        // there look like a node with many transitions (whose transition
        // index would not fit) or with inconsistent pack sizes
        7 if rng.chance(1, 2) => {
            let version = *rng.pick(&[1u64, 2, 2, 3, 3]);
            let footer = if version <= 2 { 16 } else { 20 };
            let len = rng.urange(16 + footer + 1, 400);
            let mut b: Vec<u8> = (0..len).map(|_| rng.next_u64() as u8).collect();
            b[..8].copy_from_slice(&version.to_le_bytes());
            b[8..16].copy_from_slice(&0u64.to_le_bytes());
            let root = len - footer - 1;
            // state byte of an any-transition node: 00ffnnnn (f = final flag,
            // n = transition count, 0 = count in the preceding byte)
            let fin = if rng.chance(1, 2) { 0x40u8 } else { 0 };
            match rng.below(4) {
                0 => b[root] = fin | rng.range(33, 63) as u8,
                1 => {
                    b[root] = fin;
                    if root > 16 {
                        b[root - 1] = *rng.pick(&[1u8, 33, 64, 65, 200, 255]);
                    }
                }
                2 => b[root] = fin | rng.range(1, 32) as u8,
                _ => b[root] = rng.next_u64() as u8,
            }
            if root > 18 && rng.chance(1, 2) {
                // pack sizes byte: transition and output widths 1..8
                let at = root - 1 - (b[root] & 0x3f == 0) as usize;
                b[at] = ((rng.range(1, 8) as u8) << 4) | rng.range(0, 8) as u8;
            }
            let e = b.len();
            b[e - footer..e - footer + 8].copy_from_slice(&rng.pick(&[0u64, 1, 40, 1 << 20, u64::MAX]).to_le_bytes());
            b[e - footer + 8..e - footer + 16].copy_from_slice(&(root as u64).to_le_bytes());
            CorruptCase { base: Base::Raw(b), muts: vec![] }
        }
        // plain random strings
        _ => {
            let len = rng.urange(0, 200);
            let b: Vec<u8> = (0..len).map(|_| rng.next_u64() as u8).collect();
            CorruptCase { base: Base::Raw(b), muts: vec![] }
        }
    };
    let mut cc = cc;
    if rng.chance(1, 3) {
        // untrusted bytes may well carry a matching checksum
        cc.muts.push(Mutation::FixChecksum);
    }
    st.report("C20", &Case::Corrupt(cc));
}

// ------------------------------------------------------------------- C08

pub fn c08_sizes(cfg: &Cfg) -> (u64, u64, u64) {
    // (exhaustive-substitution files, payload runs, sampled corruption runs
    //  incl. builds through benign sinks)
    (scaled(cfg, 200, 10_000), scaled(cfg, 20_000, 1_000_000), scaled(cfg, 120_000, 6_000_000))
}

/// Solve for a 32-bit part of a one-key map's value such that the finished
/// artifact's (masked) checksum is exactly `target`: CRC-32C is affine in
/// those bytes, so this is a 32x32 linear system over GF(2) set up with the
/// harness's own reference CRC. Boundary values of the *checksum itself*
/// (0, 1, 0xFFFFFFFF, ...) are one in 2^32 for random inputs.
fn task_with_checksum(key: &[u8], target: u32) -> Option<TaskSpec> {
    let task = |x: u32| TaskSpec {
        front: Front::Map,
        registry: None,
        ops: vec![Op::Ins(key.to_vec(), (1u64 << 63) | x as u64)],
        fin: Fin::IntoInner,
    };
    let probe = 0x1122_3344u32;
    let base = crate::build::reference_build(&task(probe)).1?;
    let pat = [0x44u8, 0x33, 0x22, 0x11, 0, 0, 0, 0x80];
    let n = base.len();
    let p = (0..n.saturating_sub(12)).find(|&i| base[i..i + 8] == pat)?;
    let body = |x: u32| -> Vec<u8> {
        let mut b = base[..n - 4].to_vec();
        b[p..p + 4].copy_from_slice(&x.to_le_bytes());
        b
    };
    let c0 = crate::model::crc32c_fast(&body(0));
    let cols: Vec<u32> = (0..32).map(|i| crate::model::crc32c_fast(&body(1 << i)) ^ c0).collect();
    let want = target.wrapping_sub(0xA282_EAD8).rotate_left(15) ^ c0;
    // Gaussian elimination: rows are output bits; bit i of a row = cols[i] bit r
    let mut rows: Vec<(u32, bool)> = (0..32)
        .map(|r| {
            let mut m = 0u32;
            for i in 0..32 {
                if (cols[i] >> r) & 1 == 1 {
                    m |= 1 << i;
                }
            }
            (m, (want >> r) & 1 == 1)
        })
        .collect();
    let mut piv_of_col = [usize::MAX; 32];
    let mut row = 0;
    for col in 0..32 {
        if let Some(pr) = (row..32).find(|&r| (rows[r].0 >> col) & 1 == 1) {
            rows.swap(row, pr);
            for r in 0..32 {
                if r != row && (rows[r].0 >> col) & 1 == 1 {
                    let (m, b) = rows[row];
                    rows[r].0 ^= m;
                    rows[r].1 ^= b;
                }
            }
            piv_of_col[col] = row;
            row += 1;
        }
    }
    if rows.iter().any(|(m, b)| *m == 0 && *b) {
        return None; // inconsistent (cannot happen for a bijective map)
    }
    let mut x = 0u32;
    for col in 0..32 {
        if piv_of_col[col] != usize::MAX && rows[piv_of_col[col]].1 {
            x |= 1 << col;
        }
    }
    Some(task(x))
}

const C08_SPECIAL_SUMS: [u32; 8] =
    [0, 1, 0xFFFF_FFFF, 0x8000_0000, 0xA282_EAD8, 0x0000_FFFF, 0xFFFF_0000, 0x0100_0000];

/// Plain CRC-32C values c whose masked form differs from c in exactly one
/// byte (found by a search over all 2^32 values; checked again at run time):
/// for an artifact with such a checksum, altering ONE trailer byte turns the
/// trailer into the plain CRC of the body.
const C08_ONE_BYTE_FROM_PLAIN: [u32; 6] = [0x0044_eb61, 0x009a_2f0c, 0x0144_af61, 0x0244_ef61, 0x029a_300c, 0x0344_b061];

pub fn c08(cfg: &Cfg, idx: u64, st: &mut Stats) {
    let (files, payloads, _) = c08_sizes(cfg);
    let mut rng = rng_for(cfg, idx);
    if idx > files && idx <= files + 24 {
        // artifacts whose checksum is a boundary value
        let k = (idx - files - 1) as usize;
        let target = C08_SPECIAL_SUMS[k % C08_SPECIAL_SUMS.len()];
        let key: &[u8] = [&b"a"[..], &b""[..], &b"key-with-a-longer-name"[..]][k / C08_SPECIAL_SUMS.len() % 3];
        if let Some(task) = task_with_checksum(key, target) {
            let bytes = crate::build::reference_build(&task).1.unwrap_or_default();
            let n = bytes.len();
            let hit = n >= 4 && bytes[n - 4..] == target.to_le_bytes();
            st.count(if hit { "probe.artifact_with_boundary_checksum_value" } else { "probe.checksum_solver_missed" }, 1);
            st.report("C08", &Case::Corrupt(CorruptCase { base: Base::Build(task), muts: vec![] }));
        }
        return;
    }
    if idx > files + 24 && idx <= files + 24 + C08_ONE_BYTE_FROM_PLAIN.len() as u64 {
        let c = C08_ONE_BYTE_FROM_PLAIN[(idx - files - 25) as usize];
        let target = crate::model::mask(c);
        if (target ^ c).to_le_bytes().iter().filter(|b| **b != 0).count() != 1 {
            crate::exec::harness_error("C08: one-byte-from-plain table is wrong".to_string());
        }
        if let Some(task) = task_with_checksum(b"k", target) {
            let bytes = crate::build::reference_build(&task).1.unwrap_or_default();
            let n = bytes.len();
            let hit = n >= 4 && bytes[n - 4..] == target.to_le_bytes();
            st.count(if hit { "probe.artifact_whose_checksum_is_one_byte_from_plain_crc" } else { "probe.checksum_solver_missed" }, 1);
            if st.report("C08", &Case::Corrupt(CorruptCase { base: Base::Build(task.clone()), muts: vec![] })) {
                return;
            }
            // every single-byte substitution in the trailer and the 16 bytes before it
            let mut m = bytes.clone();
            for pos in n.saturating_sub(20)..n {
                let orig = bytes[pos];
                for val in 0..=255u8 {
                    if val == orig {
                        continue;
                    }
                    m[pos] = val;
                    if crate::restart::check_c08b_bytes(&bytes, &m, false).is_some() {
                        let cc = CorruptCase { base: Base::Build(task.clone()), muts: vec![Mutation::Subst { pos, val }] };
                        st.report("C08", &Case::Corrupt(cc));
                        return;
                    }
                }
                m[pos] = orig;
            }
            st.count("corrupt.exhaustive_substitutions_and_bursts", 20 * 255);
        }
        return;
    }
    if idx > files + 30 && idx <= files + 30 + 16 {
        // artifacts from the entry points that drive a builder on the
        // caller's behalf: the four from_iter functions and the Default impls
        use crate::multi::MemFront as MF;
        let k = (idx - files - 31) as usize;
        let entry = [MF::MapDefault, MF::SetDefault, MF::MapFromIter, MF::SetFromIter, MF::FstFromIterMap, MF::FstFromIterSet][k % 6];
        let items: Vec<Item> = if matches!(entry, MF::MapDefault | MF::SetDefault) || k < 6 {
            vec![]
        } else {
            let set_like = matches!(entry, MF::SetFromIter | MF::FstFromIterSet);
            gen::sequence(&mut rng, 12, !set_like)
        };
        st.report("C08", &Case::FromIter(crate::multi::FromIterCase { entry, items, hint: (k % 4) as u8 }));
        return;
    }
    if idx > files + 46 && idx <= files + 46 + 4 {
        // an artifact of a few hundred KiB; every sampled corruption is also
        // applied IN PLACE to a buffer that verified a moment ago (same
        // address, same length, often the same trailer)
        let fam = KeyFamily { n: 20_000 + 7_000 * (idx - files - 47), fanout: 26, keylen: 12, seed: rng.next_u64(), pairs: false, leaf_fan: 0, decreasing: false, repeat: 1, sec_vocab: 0, sec_parents: 0 };
        let mut b = fst::MapBuilder::memory();
        let mut key = Vec::new();
        for i in 0..fam.n {
            fam.key_into(i, &mut key);
            b.insert(&key, fam.value(i)).expect("harness: artifact");
        }
        let bytes = b.into_inner().expect("harness: artifact");
        let mut n = 0u64;
        for _ in 0..60 {
            let pos = biased_pos(&mut rng, bytes.len());
            let val = bytes[pos] ^ (1 << rng.below(8));
            let mut m = bytes.clone();
            m[pos] = val;
            n += 1;
            if crate::restart::check_c08b_bytes(&bytes, &m, true).is_some() {
                st.report("C08", &Case::Corrupt(CorruptCase { base: Base::Raw(bytes.clone()), muts: vec![Mutation::Subst { pos, val }] }));
                return;
            }
        }
        let mut d = crate::rng::Digest::new();
        d.bytes(&bytes[..4096]);
        st.bulk(d.finish(), n);
        st.count("corrupt.in_place_on_artifact_of_several_100KiB", n);
        return;
    }
    if idx == files {
        // one artifact of several MiB: build path (byte-at-a-time sums) vs
        // verify path (16 bytes at a time over the whole file) at a scale
        // where windowed or chunked verification would show
        let n = match cfg.tier {
            Tier::Quick => 400_000,
            Tier::Thorough => 4_000_000,
        };
        let case = MemBuildCase {
            fam: KeyFamily { n, fanout: 26, keylen: 12, seed: rng.next_u64(), pairs: false, leaf_fan: 0, decreasing: false, repeat: 1, sec_vocab: 0, sec_parents: 0 },
            map: true,
            registry: None,
            bufcap: None,
            every: 1000,
            shape: Shape::Random { short_16: 3, intr_16: 1 },
            bulk: false,
            bulk_stream: false,
            rejects: 0,
            reject_run: 0,
            threads: 1,
            prologue: 0,
        };
        st.report("C08", &Case::MemBuild(case));
        return;
    }
    if idx < files {
        // B, exhaustive: every position x every other value on a small file
        let mut task;
        let mut bytes;
        loop {
            task = gen::legal_task(&mut rng, 6).0;
            bytes = crate::build::reference_build(&task).1.unwrap_or_default();
            if !bytes.is_empty() && bytes.len() <= 160 {
                break;
            }
        }
        // A(i) on the artifact itself
        if st.report("C08", &Case::Corrupt(CorruptCase { base: Base::Build(task.clone()), muts: vec![] })) {
            return;
        }
        let mut m = bytes.clone();
        let mut n = 0u64;
        for pos in 0..bytes.len() {
            let orig = bytes[pos];
            for val in 0..=255u8 {
                if val == orig {
                    continue;
                }
                m[pos] = val;
                n += 1;
                if crate::restart::check_c08b_bytes(&bytes, &m, pos + 24 >= bytes.len() || pos < 16).is_some() {
                    let cc = CorruptCase {
                        base: Base::Build(task.clone()),
                        muts: vec![Mutation::Subst { pos, val }],
                    };
                    st.report("C08", &Case::Corrupt(cc));
                    return;
                }
            }
            m[pos] = orig;
        }
        // every burst of 2..4 bytes at every offset, wholly inside the
        // summed region or wholly inside the checksum field (sampled values)
        for blen in 2..=4usize {
            for pos in 0..bytes.len().saturating_sub(blen - 1) {
                let end = pos + blen;
                let sum_start = bytes.len() - 4;
                if pos < sum_start && end > sum_start {
                    continue; // straddles the boundary: outside the claim
                }
                for _ in 0..4 {
                    let b: Vec<u8> = (0..blen).map(|_| rng.next_u64() as u8).collect();
                    let mut m2 = bytes.clone();
                    m2[pos..end].copy_from_slice(&b);
                    n += 1;
                    if crate::restart::check_c08b_bytes(&bytes, &m2, pos + 24 >= bytes.len()).is_some() {
                        let cc = CorruptCase {
                            base: Base::Build(task.clone()),
                            muts: vec![Mutation::Burst { pos, bytes: b }],
                        };
                        st.report("C08", &Case::Corrupt(cc));
                        return;
                    }
                }
            }
        }
        // trailer replaced by values derived from the body that a lenient
        // verify() could mistake for the checksum
        for kind in crate::restart::TRAILER_KINDS {
            let mut m2 = bytes.clone();
            crate::restart::apply(&mut m2, &Mutation::TrailerFrom { kind });
            n += 1;
            if crate::restart::check_c08b_bytes(&bytes, &m2, true).is_some() {
                let cc = CorruptCase { base: Base::Build(task.clone()), muts: vec![Mutation::TrailerFrom { kind }] };
                st.report("C08", &Case::Corrupt(cc));
                return;
            }
        }
        let mut d = crate::rng::Digest::new();
        d.bytes(&bytes);
        st.bulk(d.finish(), n);
        st.count("corrupt.exhaustive_substitutions_and_bursts", n);
        *st
            .exhaustive_scopes
            .entry("artifact <= 160 bytes: every byte position x every other value (single-byte substitution)".into())
            .or_insert(0) += 1;
        return;
    }
    if idx < files + payloads {
        // A(ii): arbitrary payload through the real counting writer
        let len = match rng.below(6) {
            0 => rng.urange(0, 40),
            1 => *rng.pick(&[15usize, 16, 17, 31, 32, 33, 47, 48, 49, 255, 256, 257, 4095, 4096]),
            2 | 3 => rng.urange(0, 300),
            _ => rng.urange(0, 4096),
        };
        let payload: Vec<u8> = match rng.below(4) {
            0 => vec![0u8; len],
            1 => vec![0xffu8; len],
            _ => (0..len).map(|_| rng.next_u64() as u8).collect(),
        };
        let nchunks = match rng.below(3) {
            0 => 0,
            1 => rng.urange(1, 4),
            _ => rng.urange(1, 40),
        };
        let chunk_lens: Vec<usize> = (0..nchunks)
            .map(|_| match rng.below(3) {
                0 => *rng.pick(&[1usize, 2, 8, 15, 16, 17, 31, 32, 33]),
                _ => rng.urange(0, std::cmp::max(1, len / 2)),
            })
            .collect();
        let shape = match rng.below(6) {
            0 => Shape::Full,
            1 => Shape::Cap(*rng.pick(&[1usize, 7, 15, 16, 17, 31, 32, 33, 100])),
            2 => Shape::Storm,
            _ => Shape::Random { short_16: *rng.pick(&[4u8, 8, 16]), intr_16: *rng.pick(&[0u8, 0, 2, 4]) },
        };
        let case = PayloadCase {
            payload,
            chunk_lens,
            bufcap: if rng.chance(1, 4) { Some(*rng.pick(&[1usize, 16, 100, 5000])) } else { None },
            plan: Plan::clean(),
            random: Some((shape, rng.next_u64())),
        };
        st.report("C08", &Case::Payload(case));
        return;
    }
    // A(i) through benign sinks: the checksum of what a builder reports as
    // finished must not depend on how the sink chunked the writes
    if rng.chance(1, 6) {
        let (mut task, _) = gen::sweep_task(&mut rng, 40, 8);
        if rng.chance(1, 3) {
            // a builder that has refused calls in its history (also inside
            // bulk calls that end early) still finishes with the checksum of
            // what it wrote
            task.ops = gen::with_rejected_noise(&mut rng, task.front, &task.ops);
            st.count("probe.c08_build_with_refused_calls_in_its_history", 1);
        }
        let shape = match rng.below(4) {
            0 => Shape::Cap(*rng.pick(&[1usize, 2, 3])),
            1 => Shape::Random { short_16: 16, intr_16: 0 },
            2 => Shape::Storm,
            _ => gen::benign_shape(&mut rng),
        };
        let case = BuildCase {
            task,
            bufcap: gen::bufcap(&mut rng),
            prefill: vec![],
            plan: Plan::clean(),
            random: Some((shape, rng.next_u64())),
        };
        st.report("C08", &Case::Build(case));
        return;
    }
    // B, sampled, on larger artifacts; plus the in-flight variant
    let (task, _) = gen::legal_task(&mut rng, 200);
    if rng.chance(1, 5) {
        // flip a byte of the already durable region while the build runs
        let mut c = BuildCase {
            task,
            bufcap: gen::bufcap(&mut rng),
            prefill: vec![],
            plan: Plan::clean(),
            random: Some((gen::benign_shape(&mut rng), rng.next_u64())),
        };
        c.plan.flips.push(Flip {
            after_event: rng.below(60),
            pos: rng.usize_below(1 << 20),
            xor: 1 << rng.below(8),
        });
        st.report("C08", &Case::Corrupt(CorruptCase { base: Base::Survivor(c), muts: vec![] }));
        return;
    }
    let bytes = match crate::build::reference_build(&task).1 {
        Some(b) => b,
        None => return,
    };
    let n = bytes.len();
    let m = match if rng.chance(1, 10) { 9 } else { rng.below(4) } {
        9 => Mutation::TrailerFrom { kind: *rng.pick(&crate::restart::TRAILER_KINDS) },
        0 => {
            let pos = biased_pos(&mut rng, n);
            Mutation::Subst { pos, val: bytes[pos] ^ (1 << rng.below(8)) }
        }
        1 => {
            let pos = biased_pos(&mut rng, n);
            Mutation::Subst { pos, val: bytes[pos].wrapping_add(1 + rng.below(255) as u8) }
        }
        _ => {
            let blen = rng.urange(2, 4);
            let sum_start = n - 4;
            let pos = if rng.chance(1, 5) {
                sum_start + rng.usize_below(4 - blen + 1)
            } else {
                rng.usize_below(sum_start - blen + 1)
            };
            Mutation::Burst { pos, bytes: (0..blen).map(|_| rng.next_u64() as u8).collect() }
        }
    };
    st.count("corrupt.sampled_mutations", 1);
    st.report("C08", &Case::Corrupt(CorruptCase { base: Base::Build(task), muts: vec![m] }));
}

// ------------------------------------------------------------------- C15

pub fn c15_sizes(cfg: &Cfg) -> u64 {
    // (thorough: 2 000 000 took an hour of 16 cores once re-entrant writers
    // and the many-builders worlds were in; one million keeps it near 30 min)
    scaled(cfg, 20_000, 1_000_000)
}

pub fn c15(cfg: &Cfg, idx: u64, st: &mut Stats) {
    let mut rng = rng_for(cfg, idx);
    if idx < 6 {
        // large worlds at the shipped cache geometry: with thousands of
        // distinct nodes the cache is under real pressure (third node in a
        // bucket, evictions), so entry points that differ in how they set up
        // the builder would differ in bytes; every in-memory entry point
        // meets two builders that stream to a sink
        let valued = idx % 2 == 0;
        let n = [3_000usize, 12_000, 40_000][(idx / 2) as usize];
        let mut keys: std::collections::BTreeSet<Vec<u8>> = std::collections::BTreeSet::new();
        while keys.len() < n {
            keys.insert(format!("{:08x}", rng.next_u64() as u32).into_bytes());
        }
        let items: Vec<Item> = keys.into_iter().map(|k| (k, if valued { rng.below(1 << 20) } else { 0 })).collect();
        let mut tasks: Vec<MTask> = Vec::new();
        let mems: &[crate::multi::MemFront] = if valued { &MEM_FRONTS_MAP } else { &MEM_FRONTS_SET };
        for f in mems {
            tasks.push(MTask { kind: MKind::Mem(*f), same: true });
        }
        let front = if valued { Front::Map } else { Front::Set };
        for (fr, bulk) in [(front, false), (Front::Raw, true), (front, true)] {
            let ops = if bulk {
                vec![if fr == Front::Raw { Op::ExtIter(items.clone()) } else { Op::ExtStream(items.clone(), Via::Fst) }]
            } else {
                items.iter().map(|(k, v)| Op::Ins(k.clone(), *v)).collect()
            };
            tasks.push(MTask {
                kind: MKind::Sink(BuildCase {
                    task: TaskSpec { front: fr, registry: None, ops, fin: Fin::IntoInner },
                    bufcap: None,
                    prefill: vec![],
                    plan: Plan::clean(),
                    random: Some((Shape::Cap(4096), rng.next_u64())),
                }),
                same: true,
            });
        }
        let case = MultiCase { items, valued, tasks, schedule: vec![], sched_seed: Some(rng.next_u64()) };
        st.report("C15", &Case::Multi(case));
        return;
    }
    // (placed behind the indices that the cross-process determinism sample
    // re-runs in five more processes: these worlds cost seconds each)
    let estart = match cfg.tier {
        Tier::Quick => 2_000u64,
        Tier::Thorough => 100_000,
    };
    let elist: &[u64] = match cfg.tier {
        Tier::Quick => &[255, 256, 65_535, 65_536],
        Tier::Thorough => &[254, 255, 256, 257, 1_000, 65_534, 65_535, 65_536, 65_537, 70_000, 131_071, 131_072],
    };
    if idx >= estart && idx < estart + elist.len() as u64 {
        // the same sequence before and after N other builder objects in the
        // same thread; N around 2^8 and 2^16 (object counters that wrap)
        let between = elist[(idx - estart) as usize];
        let valued = idx % 2 == 0;
        let items = gen::sequence(&mut rng, 12, valued);
        st.report("C15", &Case::Epoch(crate::multi::EpochCase { items, valued, between }));
        return;
    }
    if idx == 6 || idx == 7 {
        let valued = idx == 6;
        let mut tasks: Vec<MTask> = Vec::new();
        let mems: &[crate::multi::MemFront] = if valued { &MEM_FRONTS_MAP } else { &MEM_FRONTS_SET };
        for f in mems {
            tasks.push(MTask { kind: MKind::Mem(*f), same: true });
        }
        tasks.push(MTask {
            kind: MKind::Mem(if valued { crate::multi::MemFront::MapDefault } else { crate::multi::MemFront::SetDefault }),
            same: true,
        });
        tasks.push(MTask {
            kind: MKind::Sink(BuildCase::clean(TaskSpec {
                front: if valued { Front::Map } else { Front::Set },
                registry: None,
                ops: vec![],
                fin: Fin::IntoInner,
            })),
            same: true,
        });
        st.count("probe.c15_empty_sequence_incl_default_impls", 1);
        let case = MultiCase { items: vec![], valued, tasks, schedule: vec![], sched_seed: Some(rng.next_u64()) };
        st.report("C15", &Case::Multi(case));
        return;
    }
    let mut valued = rng.chance(2, 3);
    let mut items = gen::sequence(&mut rng, 30, valued);
    if rng.chance(1, 8) {
        // a sequence with a wide node (more than 32 transitions: the one
        // place where the builder hands the sink a write of 256 bytes)
        let small = rng.chance(1, 2);
        let (_, wide) = gen::wide_task(&mut rng, small);
        valued = wide.iter().any(|(_, v)| *v != 0);
        items = wide;
        st.count("probe.c15_sequence_with_wide_node", 1);
    }
    let geometry = if rng.chance(1, 4) { None } else { gen::geometry(&mut rng) };
    let n_same = rng.urange(2, 6);
    let mut tasks = Vec::new();
    for _ in 0..n_same {
        if geometry.is_none() && rng.chance(1, 3) {
            let f = if valued {
                *rng.pick(&MEM_FRONTS_MAP)
            } else if rng.chance(1, 2) {
                *rng.pick(&MEM_FRONTS_SET)
            } else {
                *rng.pick(&MEM_FRONTS_MAP)
            };
            tasks.push(MTask { kind: MKind::Mem(f), same: true });
        } else {
            let front = if valued {
                *rng.pick(&[Front::Map, Front::Raw])
            } else {
                *rng.pick(&[Front::Set, Front::Raw, Front::Map])
            };
            let mut ops = gen::group_ops(&mut rng, front, &items);
            if front == Front::Set && rng.chance(1, 3) {
                // a set builder takes its last key again as a no-op, through
                // every entry point: the key that ended one call comes once
                // more at the head of the next (a chunk resumed inclusively)
                let mut out: Vec<Op> = Vec::new();
                let mut last: Option<Vec<u8>> = None;
                let mut repeats = 0u64;
                for o in ops.into_iter() {
                    let mut o = o;
                    if let Some(k) = &last {
                        if rng.chance(1, 2) {
                            match &mut o {
                                Op::ExtIter(it) | Op::ExtStream(it, Via::Vec) => {
                                    it.insert(0, (k.clone(), 0));
                                    repeats += 1;
                                }
                                Op::Ins(_, _) | Op::Add(_) => {
                                    out.push(Op::Ins(k.clone(), 0));
                                    repeats += 1;
                                }
                                _ => {}
                            }
                        }
                    }
                    let lk = match &o {
                        Op::Ins(k, _) | Op::Add(k) => Some(k.clone()),
                        Op::ExtIter(it) | Op::ExtStream(it, _) => it.last().map(|x| x.0.clone()),
                    };
                    if lk.is_some() {
                        last = lk;
                    }
                    out.push(o);
                }
                ops = out;
                st.count("probe.c15_set_last_key_repeated_across_calls", repeats);
            }
            if rng.chance(1, 4) {
                // calls that must be rejected do not belong to the accepted
                // sequence and must not influence the bytes
                ops = gen::with_rejected_noise(&mut rng, front, &ops);
            }
            let mut bc = BuildCase {
                task: TaskSpec { front, registry: geometry, ops, fin: gen::fin(&mut rng) },
                bufcap: gen::bufcap(&mut rng),
                prefill: gen::prefill(&mut rng),
                plan: Plan::clean(),
                random: Some((gen::benign_shape(&mut rng), rng.next_u64())),
            };
            if rng.chance(1, 8) {
                // the caller's key source panics inside one bulk call; the
                // caller catches it and feeds the remaining items through
                // further calls: same accepted sequence, same bytes
                let bulk: Vec<usize> = bc
                    .task
                    .ops
                    .iter()
                    .enumerate()
                    .filter(|(_, o)| matches!(o, Op::ExtIter(_) | Op::ExtStream(_, Via::Vec)))
                    .map(|(i, _)| i)
                    .collect();
                if !bulk.is_empty() {
                    let oi = bulk[rng.usize_below(bulk.len())];
                    if let Op::ExtIter(items) | Op::ExtStream(items, _) = &bc.task.ops[oi] {
                        let items = items.clone();
                        let at = rng.usize_below(items.len() + 1);
                        let via = if let Op::ExtStream(_, v) = &bc.task.ops[oi] { Some(*v) } else { None };
                        let mut head: Vec<Item> = items[..at].to_vec();
                        head.push((crate::front::PANIC_KEY.to_vec(), 0));
                        let tail: Vec<Item> = items[at..].to_vec();
                        let mk = |it: Vec<Item>| match via {
                            Some(v) => Op::ExtStream(it, v),
                            None => Op::ExtIter(it),
                        };
                        bc.task.ops.splice(oi..=oi, [mk(head), mk(tail)]);
                        st.count("probe.c15_key_source_panics_inside_a_bulk_call", 1);
                    }
                }
            }
            if rng.chance(1, 6) {
                // a re-entrant writer: it builds another FST with the library
                // inside write() before it answers
                bc.plan.reenter_every = *rng.pick(&[1usize, 2, 5, 13]);
                st.count("probe.c15_writer_builds_an_fst_inside_write", 1);
            }
            tasks.push(MTask { kind: MKind::Sink(bc), same: true });
        }
    }
    for _ in 0..rng.urange(0, 3) {
        if rng.chance(1, 4) {
            tasks.push(MTask { kind: MKind::Mem(*rng.pick(&MEM_FRONTS_MAP)), same: false });
        } else {
            let (task, _) = gen::legal_task(&mut rng, 20);
            let mut bc = BuildCase {
                task,
                bufcap: None,
                prefill: vec![],
                plan: Plan::clean(),
                random: Some((gen::benign_shape(&mut rng), rng.next_u64())),
            };
            if rng.chance(1, 2) {
                // a disturber whose file fails under it: the builder dies
                // with an I/O error somewhere in the middle of its output.
                // What another builder emits must not depend on that either.
                bc.plan.fault_write = Some((rng.usize_below(60), WStep::Err(gen::err_kind(&mut rng))));
                st.count("probe.c15_disturber_dies_with_io_error", 1);
            } else if rng.chance(1, 3) {
                // ... or is simply dropped by its caller without finish()
                bc.task.fin = Fin::Abandon;
                st.count("probe.c15_disturber_dropped_without_finish", 1);
            } else if rng.chance(1, 2) {
                // ... or its writer panics inside a write call; the builder
                // call unwinds and the caller catches the panic
                bc.plan.fault_write = Some((rng.usize_below(60), WStep::Err(crate::sink::ErrKind::Panic)));
                st.count("probe.c15_disturber_writer_panics_inside_write", 1);
            }
            tasks.push(MTask { kind: MKind::Sink(bc), same: false });
        }
    }
    // shuffle task order so that disturbers are not always last
    for i in (1..tasks.len()).rev() {
        let j = rng.usize_below(i + 1);
        tasks.swap(i, j);
    }
    let case = MultiCase { items, valued, tasks, schedule: vec![], sched_seed: Some(rng.next_u64()) };
    st.report("C15", &Case::Multi(case));
}

// ------------------------------------------------------------------- C13

pub fn c13_cases(cfg: &Cfg) -> Vec<MemBuildCase> {
    let mut out = Vec::new();
    let seed = mix(cfg.seed, tag_of("C13"), 0);
    let geos: [Option<(usize, usize)>; 4] = [None, Some((64, 2)), Some((5, 7)), Some((1, 1))];
    let ns: &[u64] = &[10_000, 100_000, 1_000_000];
    let shapes = [
        Shape::Random { short_16: 2, intr_16: 1 },
        Shape::Cap(4096),
        Shape::Cap(7),
        Shape::Full,
        Shape::Cap(600),
    ];
    let mut si = 0;
    for &n in ns {
        for map in [false, true] {
            for g in geos {
                si += 1;
                out.push(MemBuildCase {
                    shape: shapes[si % shapes.len()],
                    fam: KeyFamily { n, fanout: 26, keylen: 12, seed: seed ^ n, pairs: g.map_or(false, |g| g.0 == 5) || (map && g.is_none()), leaf_fan: 0, decreasing: false, repeat: 1, sec_vocab: 0, sec_parents: 0 },
                    map,
                    registry: g,
                    bufcap: if map { None } else { Some(4096) },
                    every: 1000,
                    bulk: false,
                    bulk_stream: false,
                    rejects: 0,
                    reject_run: 0,
                    threads: 1,
                    prologue: 0,
                });
            }
        }
    }
    // other fan-outs and key lengths at one scale (incl. the 256-way node)
    for (i, (f, l)) in [(2u32, 40u32), (256, 8), (64, 24), (256, 64), (10, 16), (33, 12)].iter().enumerate() {
        out.push(MemBuildCase {
            fam: KeyFamily { n: 200_000, fanout: *f, keylen: *l, seed: seed ^ (*f as u64) << 8, pairs: i % 2 == 1, leaf_fan: 0, decreasing: false, repeat: 1, sec_vocab: 0, sec_parents: 0 },
            map: i % 2 == 0,
            registry: [None, Some((128, 2)), Some((3, 3))][i % 3],
            bufcap: None,
            every: 1000,
            shape: shapes[i % shapes.len()],
            bulk: false,
            bulk_stream: false,
            rejects: 0,
            reject_run: 0,
            threads: 1,
            prologue: 0,
        });
    }
    // an unbounded number of DISTINCT wide nodes (leaf fans of 33..64 last
    // bytes), and maps whose values strictly decrease (outputs are pushed
    // down on every insert)
    for (i, (fan, g)) in [(40u32, Some((3usize, 3usize))), (33, Some((64, 2))), (64, None), (48, Some((128, 2)))].iter().enumerate() {
        out.push(MemBuildCase {
            fam: KeyFamily { n: if g.is_none() { 3_000_000 } else { 300_000 }, fanout: 26, keylen: 6, seed: seed ^ 0xfa4 ^ i as u64, pairs: false, leaf_fan: *fan, decreasing: i % 2 == 1, repeat: 1, sec_vocab: 0, sec_parents: 0 },
            map: i % 2 == 1,
            registry: *g,
            bufcap: None,
            every: 1000,
            shape: shapes[i % shapes.len()],
            bulk: false,
            bulk_stream: false,
            rejects: 0,
            reject_run: 0,
            threads: 1,
            prologue: 0,
        });
    }
    for (i, g) in [Some((64usize, 2usize)), None, Some((1, 1))].iter().enumerate() {
        out.push(MemBuildCase {
            fam: KeyFamily { n: if g.is_none() { 2_000_000 } else { 300_000 }, fanout: 10, keylen: 10, seed: seed ^ 0xdec ^ i as u64, pairs: i == 2, leaf_fan: 0, decreasing: true, repeat: 1, sec_vocab: 0, sec_parents: 0 },
            map: true,
            registry: *g,
            bufcap: None,
            every: 1000,
            shape: shapes[(i + 2) % shapes.len()],
            bulk: false,
            bulk_stream: false,
            rejects: 0,
            reject_run: 0,
            threads: 1,
            prologue: 0,
        });
    }
    // the opposite extreme: complete F-ary trees (keylen == counter width),
    // i.e. very long stretches of keys that create no new node at all
    for (i, (f, l, g)) in [(2u32, 22u32, None), (4, 10, Some((64usize, 2usize))), (2, 18, Some((1, 1))), (4, 11, None)].iter().enumerate() {
        out.push(MemBuildCase {
            fam: KeyFamily { n: (*f as u64).pow(*l), fanout: *f, keylen: *l, seed: seed ^ 0xde5e ^ i as u64, pairs: false, leaf_fan: 0, decreasing: false, repeat: 1, sec_vocab: 0, sec_parents: 0 },
            map: i == 1,
            registry: *g,
            bufcap: None,
            every: 1000,
            shape: shapes[i % shapes.len()],
            bulk: false,
            bulk_stream: false,
            rejects: 0,
            reject_run: 0,
            threads: 1,
            prologue: 0,
        });
    }
    // complete trees whose every inner node is WIDE (40..64 transitions) and,
    // as maps with irregular values, distinct: long stretches in which the
    // cache sees wide nodes only, no small node in between
    for (i, (f, l, g)) in [(40u32, 4u32, None), (48, 3, Some((64usize, 2usize))), (64, 3, Some((5, 7))), (33, 4, Some((128, 2)))].iter().enumerate() {
        out.push(MemBuildCase {
            fam: KeyFamily { n: (*f as u64).pow(*l), fanout: *f, keylen: *l, seed: seed ^ 0x71de ^ i as u64, pairs: false, leaf_fan: 0, decreasing: false, repeat: 1, sec_vocab: 0, sec_parents: 0 },
            map: true,
            registry: *g,
            bufcap: None,
            every: 1000,
            shape: shapes[i % shapes.len()],
            bulk: false,
            bulk_stream: false,
            rejects: 0,
            reject_run: 0,
            threads: 1,
            prologue: 0,
        });
    }
    // one bulk call over a large slice (exact size hint) instead of a loop
    for (i, g) in [None, Some((64usize, 2usize))].iter().enumerate() {
        out.push(MemBuildCase {
            fam: KeyFamily { n: 400_000, fanout: 26, keylen: 12, seed: seed ^ 0xb01c ^ i as u64, pairs: false, leaf_fan: 0, decreasing: false, repeat: 1, sec_vocab: 0, sec_parents: 0 },
            map: i == 0,
            registry: *g,
            bufcap: None,
            every: 1000,
            shape: Shape::Full,
            bulk: true,
            bulk_stream: false,
            rejects: 0,
            reject_run: 0,
            threads: 1,
            prologue: 0,
        });
    }
    // one extend_stream call fed by the stream of a large source FST
    for (i, g) in [None, Some((64usize, 2usize)), Some((3, 3))].iter().enumerate() {
        out.push(MemBuildCase {
            fam: KeyFamily { n: 400_000, fanout: 26, keylen: 12, seed: seed ^ 0x57e ^ i as u64, pairs: false, leaf_fan: 0, decreasing: false, repeat: 1, sec_vocab: 0, sec_parents: 0 },
            map: i != 2,
            registry: *g,
            bufcap: None,
            every: 1000,
            shape: Shape::Full,
            bulk: true,
            bulk_stream: true,
            rejects: 0,
            reject_run: 0,
            threads: 1,
            prologue: 0,
        });
    }
    // refused inserts in between the accepted ones (a smaller key; for maps
    // also the same key again): a refused insert must not leave memory behind
    for (i, g) in [Some((128usize, 2usize)), Some((64usize, 2usize)), Some((3, 3))].iter().enumerate() {
        out.push(MemBuildCase {
            fam: KeyFamily { n: 400_000, fanout: 26, keylen: 12, seed: seed ^ 0x4e1 ^ i as u64, pairs: i == 2, leaf_fan: 0, decreasing: false, repeat: 1, sec_vocab: 0, sec_parents: 0 },
            map: i != 1,
            registry: *g,
            bufcap: None,
            every: 1000,
            shape: shapes[i % shapes.len()],
            bulk: false,
            bulk_stream: false,
            rejects: if i == 0 { 0 } else { 2 + i as u32 },
            reject_run: [150_000, 0, 100_000][i],
            threads: 1,
            prologue: 0,
        });
    }
    // sectioned streams: a vocabulary of tails that fits the cache is found
    // again and again under several parents, then a new section's vocabulary
    // pushes those often-found nodes out
    for (i, (g, vocab, parents, l, n)) in [
        (None, 500u32, 6u32, 8u32, 2_000_000u64),
        (None, 400, 8, 8, 1_500_000),
        (Some((64usize, 2usize)), 10, 6, 6, 300_000),
        (Some((5, 7)), 4, 9, 5, 300_000),
    ]
    .iter()
    .enumerate()
    {
        out.push(MemBuildCase {
            fam: KeyFamily { n: *n, fanout: 26, keylen: *l, seed: seed ^ 0x5ec ^ i as u64, pairs: false, leaf_fan: 0, decreasing: false, repeat: 1, sec_vocab: *vocab, sec_parents: *parents },
            map: i % 2 == 1,
            registry: *g,
            bufcap: None,
            every: 1000,
            shape: shapes[i % shapes.len()],
            bulk: false,
            bulk_stream: false,
            rejects: 0,
            reject_run: 0,
            threads: 1,
            prologue: 0,
        });
    }
    // a build that begins with the empty key, and / or with a bulk call that
    // returns an error half-way (the caller goes on with single inserts)
    for (i, (pro, g)) in [(1u8, Some((64usize, 2usize))), (2, Some((64, 2))), (3, None), (1, Some((3, 3))), (2, Some((5, 7)))].iter().enumerate() {
        out.push(MemBuildCase {
            fam: KeyFamily { n: 400_000, fanout: 26, keylen: 12, seed: seed ^ 0x9120 ^ i as u64, pairs: i == 3, leaf_fan: 0, decreasing: false, repeat: 1, sec_vocab: 0, sec_parents: 0 },
            map: i % 2 == 0,
            registry: *g,
            bufcap: None,
            every: 1000,
            shape: shapes[i % shapes.len()],
            bulk: false,
            bulk_stream: false,
            rejects: 0,
            reject_run: 0,
            threads: 1,
            prologue: *pro,
        });
    }
    // keys far longer than all earlier ones that arrive late (whatever grows
    // with the longest key must not be sized by the number of keys so far)
    for (i, map) in [false, true].iter().enumerate() {
        out.push(MemBuildCase {
            fam: KeyFamily { n: 400_000, fanout: 26, keylen: 12 + 30 * i as u32, seed: seed ^ 0x1a7e ^ i as u64, pairs: false, leaf_fan: 0, decreasing: false, repeat: 1, sec_vocab: 0, sec_parents: 0 },
            map: *map,
            registry: if i == 1 { Some((64, 2)) } else { None },
            bufcap: None,
            every: 1000,
            shape: shapes[i % shapes.len()],
            bulk: false,
            bulk_stream: false,
            rejects: 0,
            reject_run: 0,
            threads: 1,
            prologue: 16,
        });
    }
    // the raw builder with `insert` (an output) and `add` (none) mixed on one
    // object: one valued header row and then adds only; a valued first half
    for (i, pro) in [4u8, 8, 5].iter().enumerate() {
        out.push(MemBuildCase {
            fam: KeyFamily { n: 400_000, fanout: 26, keylen: 12 + 8 * i as u32, seed: seed ^ 0x4add ^ i as u64, pairs: false, leaf_fan: 0, decreasing: false, repeat: 1, sec_vocab: 0, sec_parents: 0 },
            map: true,
            registry: if i == 1 { Some((64, 2)) } else { None },
            bufcap: None,
            every: 1000,
            shape: shapes[i % shapes.len()],
            bulk: false,
            bulk_stream: false,
            rejects: 0,
            reject_run: 0,
            threads: 1,
            prologue: *pro,
        });
    }
    // the builder handed back and forth between two long-lived threads
    for (i, map) in [false, true].iter().enumerate() {
        out.push(MemBuildCase {
            fam: KeyFamily { n: 120_000, fanout: 26, keylen: 40 + 20 * i as u32, seed: seed ^ 0x7172 ^ i as u64, pairs: false, leaf_fan: 0, decreasing: false, repeat: 1, sec_vocab: 0, sec_parents: 0 },
            map: *map,
            registry: None,
            bufcap: None,
            every: 1000,
            shape: Shape::Full,
            bulk: false,
            bulk_stream: false,
            rejects: 0,
            reject_run: 0,
            threads: 2,
            prologue: 0,
        });
    }
    // long keys with distinct tails (65 .. 1000 bytes: deeper than any
    // pre-sized stack or depth threshold)
    for (i, (l, n, g)) in [(65u32, 300_000u64, None), (200, 100_000, Some((64usize, 2usize))), (1000, 20_000, None), (300, 60_000, Some((3, 3)))].iter().enumerate() {
        out.push(MemBuildCase {
            fam: KeyFamily { n: *n, fanout: 26, keylen: *l, seed: seed ^ 0x10f9 ^ i as u64, pairs: i == 1, leaf_fan: 0, decreasing: false, repeat: 1, sec_vocab: 0, sec_parents: 0 },
            map: i % 2 == 0,
            registry: *g,
            bufcap: None,
            every: 1000,
            shape: shapes[i % shapes.len()],
            bulk: false,
            bulk_stream: false,
            rejects: 0,
            reject_run: 0,
            threads: 1,
            prologue: 0,
        });
    }
    // one builder that emits more than 64 MiB (2^26 bytes), and one more than
    // 128 MiB: thresholds on the number of bytes written
    for (i, (n, g)) in [(6_000_000u64, Some((64usize, 2usize))), (11_000_000, None)].iter().enumerate() {
        out.push(MemBuildCase {
            fam: KeyFamily { n: *n, fanout: 26, keylen: 12, seed: seed ^ 0xb16 ^ i as u64, pairs: false, leaf_fan: 0, decreasing: false, repeat: 1, sec_vocab: 0, sec_parents: 0 },
            map: i == 0,
            registry: *g,
            bufcap: None,
            every: 10_000,
            shape: Shape::Full,
            bulk: false,
            bulk_stream: false,
            rejects: 0,
            reject_run: 0,
            threads: 1,
            prologue: 0,
        });
    }
    // sets fed long runs of one and the same key (a legal no-op each time)
    for (i, (bulk, g)) in [(true, Some((64usize, 2usize))), (false, Some((3, 3))), (true, None)].iter().enumerate() {
        out.push(MemBuildCase {
            fam: KeyFamily { n: if g.is_none() { 4_000_000 } else { 600_000 }, fanout: 26, keylen: 12, seed: seed ^ 0x4e9 ^ i as u64, pairs: false, leaf_fan: 0, decreasing: false, repeat: 150_000, sec_vocab: 0, sec_parents: 0 },
            map: false,
            registry: *g,
            bufcap: None,
            every: 1000,
            shape: Shape::Full,
            bulk: *bulk,
            bulk_stream: false,
            rejects: 0,
            reject_run: 0,
            threads: 1,
            prologue: 0,
        });
    }
    if cfg.tier == Tier::Thorough {
        for map in [false, true] {
            out.push(MemBuildCase {
                fam: KeyFamily { n: 30_000_000, fanout: 26, keylen: 13, seed: seed ^ 99, pairs: !map, leaf_fan: 0, decreasing: false, repeat: 1, sec_vocab: 0, sec_parents: 0 },
                map,
                registry: None,
                bufcap: None,
                every: 10_000,
                shape: Shape::Full,
                bulk: false,
                bulk_stream: false,
                rejects: 0,
                reject_run: 0,
                threads: 1,
                prologue: 0,
            });
        }
        for (f, l) in [(2u32, 40u32), (10, 16), (64, 24), (256, 64), (256, 8)] {
            for g in [None, Some((128, 2)), Some((0, 0))] {
                out.push(MemBuildCase {
                    fam: KeyFamily { n: 2_000_000, fanout: f, keylen: l, seed: seed ^ f as u64, pairs: l % 16 == 0, leaf_fan: 0, decreasing: false, repeat: 1, sec_vocab: 0, sec_parents: 0 },
                    map: f % 4 == 0,
                    registry: g,
                    bufcap: None,
                    every: 1000,
                    shape: if l % 16 == 0 { Shape::Cap(4096) } else { Shape::Random { short_16: 2, intr_16: 1 } },
                    bulk: false,
                    bulk_stream: false,
                    rejects: 0,
                    reject_run: 0,
                    threads: 1,
                    prologue: 0,
                });
            }
        }
        for map in [false, true] {
            out.push(MemBuildCase {
                fam: KeyFamily { n: 10_000_000, fanout: 26, keylen: 12, seed: seed ^ 77, pairs: map, leaf_fan: 0, decreasing: false, repeat: 1, sec_vocab: 0, sec_parents: 0 },
                map,
                registry: None,
                bufcap: None,
                every: 1000,
                shape: if map { Shape::Cap(4096) } else { Shape::Random { short_16: 2, intr_16: 1 } },
                bulk: false,
                bulk_stream: false,
                rejects: 0,
                reject_run: 0,
                threads: 1,
                prologue: 0,
            });
        }
    }
    out
}

pub fn c13(cfg: &Cfg, idx: u64, st: &mut Stats) {
    let cases = c13_cases(cfg);
    if let Some(c) = cases.get(idx as usize) {
        st.report("C13", &Case::MemBuild(c.clone()));
    }
}

// ------------------------------------------------------------------- C14

pub fn c14_cases(cfg: &Cfg) -> Vec<MemReadCase> {
    let seed = mix(cfg.seed, tag_of("C14"), 0);
    let mut out = vec![
        MemReadCase { n_small: 1_000, n_large: 100_000, fanout: 26, keylen: 12, seed, k: 8 },
        MemReadCase { n_small: 1_000, n_large: 1_000_000, fanout: 26, keylen: 12, seed: seed ^ 1, k: 4 },
        MemReadCase { n_small: 2_000, n_large: 200_000, fanout: 256, keylen: 24, seed: seed ^ 2, k: 4 },
        MemReadCase { n_small: 1_000, n_large: 50_000, fanout: 4, keylen: 64, seed: seed ^ 3, k: 8 },
        // keys longer than the 64-byte initial capacity of set-operation slots
        MemReadCase { n_small: 1_000, n_large: 40_000, fanout: 26, keylen: 96, seed: seed ^ 8, k: 4 },
        MemReadCase { n_small: 500, n_large: 20_000, fanout: 256, keylen: 300, seed: seed ^ 9, k: 2 },
    ];
    if cfg.tier == Tier::Thorough {
        out.push(MemReadCase { n_small: 1_000, n_large: 5_000_000, fanout: 26, keylen: 14, seed: seed ^ 4, k: 2 });
        out.push(MemReadCase { n_small: 10_000, n_large: 1_000_000, fanout: 26, keylen: 12, seed: seed ^ 5, k: 8 });
        out.push(MemReadCase { n_small: 1_000, n_large: 1_000_000, fanout: 256, keylen: 48, seed: seed ^ 6, k: 8 });
        out.push(MemReadCase { n_small: 1_000, n_large: 1_000_000, fanout: 2, keylen: 40, seed: seed ^ 7, k: 4 });
    }
    out
}

pub fn c14(cfg: &Cfg, idx: u64, st: &mut Stats) {
    let cases = c14_cases(cfg);
    if let Some(c) = cases.get(idx as usize) {
        st.report("C14", &Case::MemRead(c.clone()));
    }
}
