//! Deterministic greedy delta debugging over explicit cases. A candidate is
//! kept only if the SAME oracle id still fails.

use crate::build::BuildCase;
use crate::case::Case;
use crate::exec::exec;
use crate::front::{Item, Op, TaskSpec};
use crate::multi::{MKind, MultiCase};
use crate::payload::PayloadCase;
use crate::restart::{Base, CorruptCase};
use crate::sink::{Plan, Rest, WStep};

pub struct Minimiser<'a> {
    prop: &'a str,
    oracle: String,
    pub execs: u64,
    budget: u64,
}

impl<'a> Minimiser<'a> {
    pub fn new(prop: &'a str, oracle: &str, budget: u64) -> Minimiser<'a> {
        Minimiser { prop, oracle: oracle.to_string(), execs: 0, budget }
    }

    fn fails(&mut self, c: &Case) -> bool {
        if self.execs >= self.budget {
            return false;
        }
        self.execs += 1;
        match exec(self.prop, c).violation {
            Some(v) => v.oracle == self.oracle,
            None => false,
        }
    }

    pub fn minimise(&mut self, case: &Case) -> Case {
        let mut cur = case.clone();
        loop {
            let before = cur.clone();
            cur = match cur {
                Case::Build(b) => Case::Build(self.min_build(b, &|b| Case::Build(b))),
                Case::Corrupt(c) => Case::Corrupt(self.min_corrupt(c)),
                Case::Payload(p) => Case::Payload(self.min_payload(p)),
                Case::Multi(m) => Case::Multi(self.min_multi(m)),
                Case::FromIter(mut f) => {
                    let mut i = 0;
                    while i < f.items.len() {
                        let mut c = f.clone();
                        c.items.remove(i);
                        if self.fails(&Case::FromIter(c.clone())) {
                            f = c;
                        } else {
                            i += 1;
                        }
                    }
                    Case::FromIter(f)
                }
                other => other,
            };
            if cur == before || self.execs >= self.budget {
                return cur;
            }
        }
    }

    fn min_task(&mut self, mut t: TaskSpec, wrap: &dyn Fn(TaskSpec) -> Case) -> TaskSpec {
        // 1. drop ops, large chunks first
        let mut chunk = std::cmp::max(1, t.ops.len() / 2);
        while chunk >= 1 {
            let mut i = 0;
            while i < t.ops.len() {
                let mut c = t.clone();
                let end = std::cmp::min(i + chunk, c.ops.len());
                c.ops.drain(i..end);
                if self.fails(&wrap(c.clone())) {
                    t = c;
                } else {
                    i += chunk;
                }
            }
            if chunk == 1 {
                break;
            }
            chunk /= 2;
        }
        // 2. shrink bulk ops: drop items, then turn into singles
        for i in 0..t.ops.len() {
            loop {
                let items: Vec<Item> = match &t.ops[i] {
                    Op::ExtIter(it) | Op::ExtStream(it, _) => it.clone(),
                    _ => break,
                };
                let mut progressed = false;
                for j in 0..items.len() {
                    let mut it2 = items.clone();
                    it2.remove(j);
                    let mut c = t.clone();
                    c.ops[i] = match &t.ops[i] {
                        Op::ExtIter(_) => Op::ExtIter(it2),
                        Op::ExtStream(_, v) => Op::ExtStream(it2, *v),
                        _ => unreachable!(),
                    };
                    if self.fails(&wrap(c.clone())) {
                        t = c;
                        progressed = true;
                        break;
                    }
                }
                if !progressed {
                    break;
                }
            }
        }
        // bulk -> singles
        {
            let mut c = t.clone();
            let mut ops = Vec::new();
            let mut changed = false;
            for op in &t.ops {
                match op {
                    Op::ExtIter(it) | Op::ExtStream(it, _) => {
                        changed = true;
                        for (k, v) in it {
                            ops.push(Op::Ins(k.clone(), *v));
                        }
                    }
                    o => ops.push(o.clone()),
                }
            }
            if changed {
                c.ops = ops;
                if self.fails(&wrap(c.clone())) {
                    t = c;
                }
            }
        }
        // 3. shorten keys, simplify values
        for i in 0..t.ops.len() {
            loop {
                let (k, v, add) = match &t.ops[i] {
                    Op::Ins(k, v) => (k.clone(), *v, false),
                    Op::Add(k) => (k.clone(), 0, true),
                    _ => break,
                };
                let mut progressed = false;
                let mut cands: Vec<(Vec<u8>, u64)> = Vec::new();
                for j in 0..k.len() {
                    let mut k2 = k.clone();
                    k2.remove(j);
                    cands.push((k2, v));
                    if k.len() > 8 {
                        break; // long keys: only try cutting the front byte, then halving
                    }
                }
                if k.len() > 8 {
                    cands.push((k[..k.len() / 2].to_vec(), v));
                    cands.push((k[k.len() / 2..].to_vec(), v));
                }
                for b in [b'a', b'b'] {
                    for j in 0..std::cmp::min(k.len(), 8) {
                        if k[j] != b && k[j] != b'a' {
                            let mut k2 = k.clone();
                            k2[j] = b;
                            cands.push((k2, v));
                        }
                    }
                }
                if v > 1 {
                    cands.push((k.clone(), 0));
                    cands.push((k.clone(), 1));
                    cands.push((k.clone(), v / 2));
                }
                for (k2, v2) in cands {
                    let mut c = t.clone();
                    c.ops[i] = if add { Op::Add(k2) } else { Op::Ins(k2, v2) };
                    if c.ops[i] == t.ops[i] {
                        continue;
                    }
                    if self.fails(&wrap(c.clone())) {
                        t = c;
                        progressed = true;
                        break;
                    }
                }
                if !progressed {
                    break;
                }
            }
        }
        // 4. default geometry if possible
        if t.registry.is_some() {
            let mut c = t.clone();
            c.registry = None;
            if self.fails(&wrap(c.clone())) {
                t = c;
            }
        }
        t
    }

    fn min_plan(&mut self, mut p: Plan, wrap: &dyn Fn(Plan) -> Case) -> Plan {
        // everything benign at once
        let mut c = p.clone();
        for w in c.writes.iter_mut() {
            if matches!(w, WStep::Accept(_) | WStep::Intr) {
                *w = WStep::Full;
            }
        }
        if c != p && self.fails(&wrap(c.clone())) {
            p = c;
        }
        if p.rest != Rest::Full {
            let mut c = p.clone();
            c.rest = Rest::Full;
            if self.fails(&wrap(c.clone())) {
                p = c;
            }
        }
        // an injected fault may be movable to an earlier call
        if let Some((at, st)) = p.fault_write {
            for at2 in 0..at {
                let mut c = p.clone();
                c.fault_write = Some((at2, st));
                if self.fails(&wrap(c.clone())) {
                    p = c;
                    break;
                }
            }
        }
        if p.vectored {
            let mut c = p.clone();
            c.vectored = false;
            if self.fails(&wrap(c.clone())) {
                p = c;
            }
        }
        if !p.flips.is_empty() {
            let mut c = p.clone();
            c.flips.clear();
            if self.fails(&wrap(c.clone())) {
                p = c;
            }
        }
        // drop Interrupted steps / un-shorten writes one at a time
        // (from the back, so indices stay meaningful)
        let mut i = p.writes.len();
        while i > 0 {
            i -= 1;
            if i >= p.writes.len() {
                continue;
            }
            match p.writes[i] {
                WStep::Intr => {
                    let mut c = p.clone();
                    c.writes.remove(i);
                    if self.fails(&wrap(c.clone())) {
                        p = c;
                    }
                }
                WStep::Accept(n) => {
                    let mut c = p.clone();
                    c.writes[i] = WStep::Full;
                    if self.fails(&wrap(c.clone())) {
                        p = c;
                    } else if n > 1 {
                        let mut c = p.clone();
                        c.writes[i] = WStep::Accept(1);
                        if self.fails(&wrap(c.clone())) {
                            p = c;
                        }
                    }
                }
                _ => {}
            }
            if self.execs >= self.budget {
                break;
            }
        }
        // trailing "full" steps say nothing
        while matches!(p.writes.last(), Some(WStep::Full)) && p.rest == Rest::Full {
            p.writes.pop();
        }
        p
    }

    fn min_build(&mut self, mut b: BuildCase, wrap: &dyn Fn(BuildCase) -> Case) -> BuildCase {
        // simplify the sink first: it keeps op indices stable
        {
            let base = b.clone();
            b.plan = self.min_plan(b.plan.clone(), &|p| {
                let mut c = base.clone();
                c.plan = p;
                wrap(c)
            });
        }
        if b.bufcap.is_some() {
            let mut c = b.clone();
            c.bufcap = None;
            if self.fails(&wrap(c.clone())) {
                b = c;
            }
        }
        if !b.prefill.is_empty() {
            let mut c = b.clone();
            c.prefill.clear();
            if self.fails(&wrap(c.clone())) {
                b = c;
            }
        }
        {
            let base = b.clone();
            b.task = self.min_task(b.task.clone(), &|t| {
                let mut c = base.clone();
                c.task = t;
                wrap(c)
            });
        }
        // fault positions may be movable to an earlier event
        if let Some((e, k)) = b.plan.sticky {
            for e2 in 0..e {
                let mut c = b.clone();
                c.plan.sticky = Some((e2, k));
                if self.fails(&wrap(c.clone())) {
                    b = c;
                    break;
                }
            }
        }
        if let Some((e, t)) = b.plan.crash {
            for e2 in 0..e {
                let mut c = b.clone();
                c.plan.crash = Some((e2, t));
                if self.fails(&wrap(c.clone())) {
                    b = c;
                    break;
                }
            }
        }
        {
            let base = b.clone();
            b.plan = self.min_plan(b.plan.clone(), &|p| {
                let mut c = base.clone();
                c.plan = p;
                wrap(c)
            });
        }
        b
    }

    fn min_corrupt(&mut self, mut c: CorruptCase) -> CorruptCase {
        // fewer mutations
        let mut i = 0;
        while i < c.muts.len() && c.muts.len() > 1 {
            let mut d = c.clone();
            d.muts.remove(i);
            if self.fails(&Case::Corrupt(d.clone())) {
                c = d;
            } else {
                i += 1;
            }
        }
        let muts = c.muts.clone();
        match c.base.clone() {
            Base::Build(t) => {
                let t2 = self.min_task(t, &|t| {
                    Case::Corrupt(CorruptCase { base: Base::Build(t), muts: muts.clone() })
                });
                c.base = Base::Build(t2);
            }
            Base::Survivor(b) => {
                let b2 = self.min_build(b, &|b| {
                    Case::Corrupt(CorruptCase { base: Base::Survivor(b), muts: muts.clone() })
                });
                c.base = Base::Survivor(b2);
            }
            Base::Raw(bytes) => {
                // shorten from the front and the back
                let mut cur = bytes;
                loop {
                    let mut progressed = false;
                    for cand in [
                        cur[..cur.len() / 2].to_vec(),
                        cur[cur.len() / 2..].to_vec(),
                        cur[..cur.len().saturating_sub(1)].to_vec(),
                        cur[std::cmp::min(1, cur.len())..].to_vec(),
                    ] {
                        if cand.len() < cur.len()
                            && self.fails(&Case::Corrupt(CorruptCase {
                                base: Base::Raw(cand.clone()),
                                muts: muts.clone(),
                            }))
                        {
                            cur = cand;
                            progressed = true;
                            break;
                        }
                    }
                    if !progressed {
                        break;
                    }
                }
                // zero bytes where possible (small inputs only: every probe
                // copies the whole input)
                for i in 0..(if cur.len() <= 4096 { cur.len() } else { 0 }) {
                    if cur[i] != 0 {
                        let mut cand = cur.clone();
                        cand[i] = 0;
                        if self.fails(&Case::Corrupt(CorruptCase {
                            base: Base::Raw(cand.clone()),
                            muts: muts.clone(),
                        })) {
                            cur = cand;
                        }
                    }
                }
                c.base = Base::Raw(cur);
            }
        }
        c
    }

    fn min_payload(&mut self, mut p: PayloadCase) -> PayloadCase {
        loop {
            let mut progressed = false;
            let n = p.payload.len();
            for cand in [
                p.payload[..n / 2].to_vec(),
                p.payload[n / 2..].to_vec(),
                p.payload[..n.saturating_sub(1)].to_vec(),
            ] {
                if cand.len() < n {
                    let mut c = p.clone();
                    c.payload = cand;
                    if self.fails(&Case::Payload(c.clone())) {
                        p = c;
                        progressed = true;
                        break;
                    }
                }
            }
            if !progressed {
                break;
            }
        }
        if !p.chunk_lens.is_empty() {
            let mut c = p.clone();
            c.chunk_lens.clear();
            if self.fails(&Case::Payload(c.clone())) {
                p = c;
            }
        }
        if p.bufcap.is_some() {
            let mut c = p.clone();
            c.bufcap = None;
            if self.fails(&Case::Payload(c.clone())) {
                p = c;
            }
        }
        let base = p.clone();
        p.plan = self.min_plan(p.plan.clone(), &|pl| {
            let mut c = base.clone();
            c.plan = pl;
            Case::Payload(c)
        });
        for i in 0..p.payload.len() {
            if p.payload[i] != 0 {
                let mut c = p.clone();
                c.payload[i] = 0;
                if self.fails(&Case::Payload(c.clone())) {
                    p = c;
                }
            }
        }
        p
    }

    fn min_multi(&mut self, mut m: MultiCase) -> MultiCase {
        // drop tasks
        let mut i = 0;
        while i < m.tasks.len() && m.tasks.len() > 2 {
            let mut c = m.clone();
            c.tasks.remove(i);
            // schedule entries refer to task indices: re-map by dropping them
            c.schedule = c
                .schedule
                .iter()
                .filter(|&&s| s as usize != i)
                .map(|&s| if s as usize > i { s - 1 } else { s })
                .collect();
            if self.fails(&Case::Multi(c.clone())) {
                m = c;
            } else {
                i += 1;
            }
        }
        // serial schedule
        {
            let mut c = m.clone();
            c.schedule.clear();
            if self.fails(&Case::Multi(c.clone())) {
                m = c;
            }
        }
        // drop items of the shared sequence: each sink task's ops must be
        // regrouped, so rebuild them as singles over the remaining items
        let mut chunk = std::cmp::max(1, m.items.len() / 2);
        loop {
            let mut i = 0;
            while i < m.items.len() {
                let mut c = m.clone();
                let end = std::cmp::min(i + chunk, c.items.len());
                c.items.drain(i..end);
                regroup_as_singles(&mut c);
                if self.fails(&Case::Multi(c.clone())) {
                    m = c;
                } else {
                    i += chunk;
                }
            }
            if chunk == 1 {
                break;
            }
            chunk /= 2;
        }
        // simplify each sink
        for i in 0..m.tasks.len() {
            if let MKind::Sink(b) = m.tasks[i].kind.clone() {
                let base = m.clone();
                let p2 = self.min_plan(b.plan.clone(), &|p| {
                    let mut c = base.clone();
                    if let MKind::Sink(bb) = &mut c.tasks[i].kind {
                        bb.plan = p;
                    }
                    Case::Multi(c)
                });
                if let MKind::Sink(bb) = &mut m.tasks[i].kind {
                    bb.plan = p2;
                }
                if b.bufcap.is_some() {
                    let mut c = m.clone();
                    if let MKind::Sink(bb) = &mut c.tasks[i].kind {
                        bb.bufcap = None;
                    }
                    if self.fails(&Case::Multi(c.clone())) {
                        m = c;
                    }
                }
            }
        }
        m
    }
}

/// After shrinking the shared sequence, tasks that build it get one single
/// insert per item (the grouping of the original is not preserved; a
/// candidate is only kept if the same oracle still fails).
fn regroup_as_singles(m: &mut MultiCase) {
    let items = m.items.clone();
    for t in m.tasks.iter_mut() {
        if !t.same {
            continue;
        }
        if let MKind::Sink(b) = &mut t.kind {
            let had_bulk = b
                .task
                .ops
                .iter()
                .any(|o| matches!(o, Op::ExtIter(_) | Op::ExtStream(..)));
            if had_bulk {
                // keep one bulk call of the same kind over everything
                let first = b
                    .task
                    .ops
                    .iter()
                    .find(|o| matches!(o, Op::ExtIter(_) | Op::ExtStream(..)))
                    .cloned()
                    .unwrap();
                b.task.ops = vec![match first {
                    Op::ExtStream(_, v) => Op::ExtStream(items.clone(), v),
                    _ => Op::ExtIter(items.clone()),
                }];
            } else {
                let add = b.task.ops.iter().any(|o| matches!(o, Op::Add(_)));
                b.task.ops = items
                    .iter()
                    .map(|(k, v)| {
                        if add && *v == 0 {
                            Op::Add(k.clone())
                        } else {
                            Op::Ins(k.clone(), *v)
                        }
                    })
                    .collect();
            }
        }
    }
}
