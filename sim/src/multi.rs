//! C15: several builder tasks in one world, interleaved call by call by the
//! seeded scheduler. All "same" tasks receive one accepted sequence through
//! different front ends / sinks and must end with identical bytes.

use std::panic::{catch_unwind, AssertUnwindSafe};

use fst::raw;

use crate::build::{BuildCase, BuildRun, BuildWorld};
use crate::front::{panic_msg, Front, Item};
use crate::oracle::Violation;
use crate::rng::{Digest, Rng};

/// One-call construction entry points that only exist in memory (they use
/// the shipped cache geometry, so they only join worlds that do as well).
#[derive(Clone, Copy, Debug, PartialEq, Eq, Hash)]
pub enum MemFront {
    SetFromIter,
    MapFromIter,
    FstFromIterSet,
    FstFromIterMap,
    RawMemory,
    MapMemory,
    SetMemory,
    /// `Map::default()` / `Set::default()`: the empty FST handed out by the
    /// `Default` impls (only meaningful for the empty sequence)
    MapDefault,
    SetDefault,
}

pub const MEM_FRONTS_SET: [MemFront; 4] = [
    MemFront::SetFromIter,
    MemFront::FstFromIterSet,
    MemFront::RawMemory,
    MemFront::SetMemory,
];
pub const MEM_FRONTS_MAP: [MemFront; 4] = [
    MemFront::MapFromIter,
    MemFront::FstFromIterMap,
    MemFront::RawMemory,
    MemFront::MapMemory,
];

impl MemFront {
    pub fn name(self) -> &'static str {
        match self {
            MemFront::SetFromIter => "Set::from_iter",
            MemFront::MapFromIter => "Map::from_iter",
            MemFront::FstFromIterSet => "Fst::from_iter_set",
            MemFront::FstFromIterMap => "Fst::from_iter_map",
            MemFront::RawMemory => "Builder::memory",
            MemFront::MapMemory => "MapBuilder::memory",
            MemFront::SetMemory => "SetBuilder::memory",
            MemFront::MapDefault => "Map::default",
            MemFront::SetDefault => "Set::default",
        }
    }
    pub fn from_name(s: &str) -> Option<MemFront> {
        for f in [
            MemFront::SetFromIter,
            MemFront::MapFromIter,
            MemFront::FstFromIterSet,
            MemFront::FstFromIterMap,
            MemFront::RawMemory,
            MemFront::MapMemory,
            MemFront::SetMemory,
            MemFront::MapDefault,
            MemFront::SetDefault,
        ] {
            if f.name() == s {
                return Some(f);
            }
        }
        None
    }
}

pub fn mem_build(f: MemFront, items: &[Item], valued: bool) -> Result<Vec<u8>, String> {
    let r = catch_unwind(AssertUnwindSafe(|| -> Result<Vec<u8>, String> {
        let e = |e: fst::Error| format!("{:?}", e);
        Ok(match f {
            MemFront::SetFromIter => fst::Set::from_iter(items.iter().map(|x| &x.0))
                .map_err(e)?
                .as_fst()
                .as_bytes()
                .to_vec(),
            MemFront::MapFromIter => fst::Map::from_iter(items.iter().map(|x| (&x.0, x.1)))
                .map_err(e)?
                .as_fst()
                .as_bytes()
                .to_vec(),
            MemFront::FstFromIterSet => raw::Fst::from_iter_set(items.iter().map(|x| &x.0))
                .map_err(e)?
                .into_inner(),
            MemFront::FstFromIterMap => raw::Fst::from_iter_map(items.iter().map(|x| (&x.0, x.1)))
                .map_err(e)?
                .into_inner(),
            MemFront::RawMemory => {
                let mut b = raw::Builder::memory();
                for (k, v) in items {
                    if valued {
                        b.insert(k, *v).map_err(e)?;
                    } else {
                        b.add(k).map_err(e)?;
                    }
                }
                b.into_fst().to_vec()
            }
            MemFront::MapMemory => {
                let mut b = fst::MapBuilder::memory();
                for (k, v) in items {
                    b.insert(k, *v).map_err(e)?;
                }
                b.into_map().into_fst().into_inner()
            }
            MemFront::SetMemory => {
                let mut b = fst::SetBuilder::memory();
                for (k, _) in items {
                    b.insert(k).map_err(e)?;
                }
                b.into_set().into_fst().into_inner()
            }
            MemFront::MapDefault | MemFront::SetDefault => {
                if !items.is_empty() {
                    return Err("harness: Default entry point with items".to_string());
                }
                if f == MemFront::MapDefault {
                    fst::Map::<Vec<u8>>::default().as_fst().as_bytes().to_vec()
                } else {
                    fst::Set::<Vec<u8>>::default().as_fst().as_bytes().to_vec()
                }
            }
        })
    }));
    match r {
        Ok(x) => x,
        Err(p) => Err(format!("PANIC: {}", panic_msg(p))),
    }
}

#[derive(Clone, Debug, PartialEq, Eq)]
pub enum MKind {
    /// a builder streaming to its own simulated file
    Sink(BuildCase),
    /// a one-call in-memory entry point over `items`
    Mem(MemFront),
}

#[derive(Clone, Debug, PartialEq, Eq)]
pub struct MTask {
    pub kind: MKind,
    /// true: builds the shared sequence; false: a disturber building
    /// unrelated data in between
    pub same: bool,
}

#[derive(Clone, Debug, PartialEq, Eq)]
pub struct MultiCase {
    /// the shared accepted sequence
    pub items: Vec<Item>,
    pub valued: bool,
    pub tasks: Vec<MTask>,
    /// explicit task schedule: index of the task that makes the next call
    /// (a finished task is skipped to the next runnable one, cyclically)
    pub schedule: Vec<u16>,
    /// Some = schedule beyond the explicit list drawn from this stream
    pub sched_seed: Option<u64>,
}

pub struct MultiRun {
    /// per task: final bytes (payload without prefill), if it finished Ok
    pub outputs: Vec<Result<Vec<u8>, String>>,
    pub schedule: Vec<u16>,
    pub digest: u64,
    pub switches: u64,
    pub sink_runs: Vec<Option<BuildRun>>,
}

enum Live {
    Sink(BuildWorld),
    Mem(MemFront),
    Done,
}

pub fn run_multi(case: &MultiCase) -> MultiRun {
    let n = case.tasks.len();
    let mut live: Vec<Live> = case
        .tasks
        .iter()
        .map(|t| match &t.kind {
            MKind::Sink(bc) => Live::Sink(BuildWorld::new(bc)),
            MKind::Mem(f) => Live::Mem(*f),
        })
        .collect();
    let mut outputs: Vec<Option<Result<Vec<u8>, String>>> = vec![None; n];
    let mut sink_runs: Vec<Option<BuildRun>> = (0..n).map(|_| None).collect();
    let mut taken: Vec<u16> = Vec::new();
    let mut rng = case.sched_seed.map(Rng::new);
    let mut pos = 0usize;
    let mut d = Digest::new();
    let mut switches = 0u64;
    let mut last: Option<usize> = None;
    loop {
        let runnable: Vec<usize> = (0..n)
            .filter(|&i| match &live[i] {
                Live::Done => false,
                Live::Sink(w) => !w.done(),
                Live::Mem(_) => true,
            })
            .collect();
        if runnable.is_empty() {
            break;
        }
        let want = if pos < case.schedule.len() {
            case.schedule[pos] as usize % n
        } else if let Some(r) = rng.as_mut() {
            r.usize_below(n)
        } else {
            // explicit schedule exhausted: run tasks to completion in order
            runnable[0]
        };
        pos += 1;
        // skip to the next runnable task cyclically
        let pick = *runnable.iter().find(|&&i| i >= want).unwrap_or(&runnable[0]);
        taken.push(pick as u16);
        d.u64(pick as u64);
        if last.is_some() && last != Some(pick) {
            switches += 1;
        }
        last = Some(pick);
        match std::mem::replace(&mut live[pick], Live::Done) {
            Live::Done => unreachable!(),
            Live::Mem(f) => {
                let items: Vec<Item> = if case.tasks[pick].same {
                    case.items.clone()
                } else {
                    disturb_items(&case.items)
                };
                outputs[pick] = Some(mem_build(f, &items, case.valued));
            }
            Live::Sink(mut w) => {
                w.step();
                live[pick] = Live::Sink(w);
            }
        }
    }
    for i in 0..n {
        if let Live::Sink(w) = std::mem::replace(&mut live[i], Live::Done) {
            let run = w.finish();
            let out = match run.finish_result() {
                Some(r) if r.is_ok() => Ok(run.sink.payload().to_vec()),
                Some(r) => Err(format!("finish returned {}", r.show())),
                None => Err(format!(
                    "stopped early: {}",
                    run.results.last().map(|r| r.show()).unwrap_or_default()
                )),
            };
            outputs[i] = Some(out);
            sink_runs[i] = Some(run);
        }
    }
    let outputs: Vec<Result<Vec<u8>, String>> = outputs
        .into_iter()
        .map(|o| o.unwrap_or_else(|| Err("never ran".into())))
        .collect();
    for o in &outputs {
        match o {
            Ok(b) => d.bytes(b),
            Err(e) => d.str(e),
        }
    }
    MultiRun { outputs, schedule: taken, digest: d.finish(), switches, sink_runs }
}

/// Unrelated data for disturber tasks, derived from the shared sequence.
pub fn disturb_items(items: &[Item]) -> Vec<Item> {
    let mut out: Vec<Item> = items
        .iter()
        .map(|(k, v)| {
            let mut k2 = k.clone();
            k2.push(b'~');
            (k2, v.wrapping_mul(3).wrapping_add(1))
        })
        .collect();
    out.sort();
    out.dedup_by(|a, b| a.0 == b.0);
    out
}

pub fn check_multi(case: &MultiCase, run: &MultiRun) -> Option<Violation> {
    let v = |o: &str, s: String| Some(Violation { oracle: o.to_string(), observed: s });
    let mut first: Option<(usize, &Vec<u8>)> = None;
    for (i, t) in case.tasks.iter().enumerate() {
        let out = &run.outputs[i];
        if let Some(Some(r)) = run.sink_runs.get(i) {
            if let Some(m) = &r.sink.reentrant_bad {
                return v("C15.bytes_differ_inside_a_write_callback", format!("task {} ({}): {}", i, task_name(t), m));
            }
        }
        if let Err(e) = out {
            // (a disturber whose own writer panicked on purpose is not a failure of the library)
            let injected = !t.same && e.contains(crate::sink::SINK_PANIC);
            if (e.starts_with("PANIC") && !injected) || t.same {
                return v(
                    "C15.task_failed",
                    format!("task {} ({}) {}", i, task_name(t), e),
                );
            }
            continue;
        }
        if !t.same {
            continue;
        }
        let b = out.as_ref().unwrap();
        match first {
            None => first = Some((i, b)),
            Some((j, fb)) => {
                if fb != b {
                    let n = std::cmp::min(fb.len(), b.len());
                    let p = (0..n).find(|&x| fb[x] != b[x]).unwrap_or(n);
                    return v(
                        "C15.bytes_differ_between_entry_points",
                        format!(
                            "task {} ({}) and task {} ({}) built the same sequence of {} entries but bytes differ (len {} vs {}, first difference at {})",
                            j,
                            task_name(&case.tasks[j]),
                            i,
                            task_name(t),
                            case.items.len(),
                            fb.len(),
                            b.len(),
                            p
                        ),
                    );
                }
            }
        }
    }
    // and what they agree on is the sequence
    if let Some((_, b)) = first {
        match crate::build::read_back(b) {
            Err(e) => return v("C15.readback_failed", e),
            Ok(rb) => {
                let want: Vec<Item> = case
                    .items
                    .iter()
                    .map(|(k, x)| (k.clone(), if case.valued { *x } else { 0 }))
                    .collect();
                if rb.items != want {
                    return v(
                        "C15.content_differs_from_sequence",
                        format!("{} entries read back, {} given", rb.items.len(), want.len()),
                    );
                }
            }
        }
    }
    None
}

pub fn task_name(t: &MTask) -> String {
    match &t.kind {
        MKind::Mem(f) => f.name().to_string(),
        MKind::Sink(bc) => {
            let bulk = bc
                .task
                .ops
                .iter()
                .filter(|o| o.n_items() != 1 || matches!(o, crate::front::Op::ExtIter(_) | crate::front::Op::ExtStream(..)))
                .count();
            format!(
                "{} {} calls ({} bulk){}",
                bc.task.front.name(),
                bc.task.ops.len(),
                bulk,
                if bc.bufcap.is_some() { " +BufWriter" } else { "" }
            )
        }
    }
}

pub fn front_for(valued: bool, rng: &mut Rng) -> Front {
    crate::gen::front(rng, valued)
}

// ------------------------------------------------ C06: one-call entry points

/// `X::from_iter(items)` as a one-call history (C06: "from_iter ... stop at
/// the first rejected item with that same error").
#[derive(Clone, Debug, PartialEq, Eq)]
pub struct FromIterCase {
    pub entry: MemFront,
    pub items: Vec<Item>,
    /// what the caller's iterator says about its length: 0 = nothing
    /// (0, None); 1 = exact; 2 = "never ends by itself" (usize::MAX, None);
    /// 3 = "empty" (0, Some(0)). A hint is a hint: the call must behave the
    /// same for all four.
    pub hint: u8,
}

pub struct FromIterRun {
    pub result: crate::front::Res,
    pub pulled: usize,
    pub bytes: Option<Vec<u8>>,
    pub digest: u64,
}

struct CountIt<I> {
    it: I,
    n: std::rc::Rc<std::cell::Cell<usize>>,
    hint: u8,
    left: usize,
}
impl<I: Iterator> Iterator for CountIt<I> {
    type Item = I::Item;
    fn next(&mut self) -> Option<I::Item> {
        let x = self.it.next();
        if x.is_some() {
            self.n.set(self.n.get() + 1);
            self.left = self.left.saturating_sub(1);
        }
        x
    }
    fn size_hint(&self) -> (usize, Option<usize>) {
        match self.hint {
            1 => (self.left, Some(self.left)),
            2 => (usize::MAX, None),
            3 => (0, Some(0)),
            _ => (0, None),
        }
    }
}

pub fn run_from_iter(case: &FromIterCase) -> FromIterRun {
    use crate::front::{res_of_err, Res};
    let n = std::rc::Rc::new(std::cell::Cell::new(0usize));
    let items = case.items.clone();
    let r = catch_unwind(AssertUnwindSafe(|| -> Result<Vec<u8>, fst::Error> {
        let left = items.len();
        let it = CountIt { it: items.into_iter(), n: n.clone(), hint: case.hint, left };
        Ok(match case.entry {
            MemFront::SetFromIter => fst::Set::from_iter(it.map(|x| x.0))?.as_fst().as_bytes().to_vec(),
            MemFront::MapFromIter => fst::Map::from_iter(it)?.as_fst().as_bytes().to_vec(),
            MemFront::FstFromIterSet => raw::Fst::from_iter_set(it.map(|x| x.0))?.into_inner(),
            MemFront::FstFromIterMap => raw::Fst::from_iter_map(it)?.into_inner(),
            MemFront::MapDefault => fst::Map::<Vec<u8>>::default().as_fst().as_bytes().to_vec(),
            MemFront::SetDefault => fst::Set::<Vec<u8>>::default().as_fst().as_bytes().to_vec(),
            _ => unreachable!("harness: not a from_iter entry point"),
        })
    }));
    let (result, bytes) = match r {
        Err(p) => (Res::Panic(panic_msg(p)), None),
        Ok(Ok(b)) => (Res::Ok, Some(b)),
        Ok(Err(e)) => (res_of_err(e), None),
    };
    let mut d = Digest::new();
    d.u64(result.code());
    d.u64(n.get() as u64);
    if let Some(b) = &bytes {
        d.bytes(b);
    }
    FromIterRun { result, pulled: n.get(), bytes, digest: d.finish() }
}

pub fn check_from_iter(case: &FromIterCase, run: &FromIterRun) -> Option<Violation> {
    use crate::build::{expect_matches, read_back, reference_build, show_expect};
    use crate::front::{Fin, Op, Res, TaskSpec};
    use crate::model::{Contract, Expect};
    let v = |o: &str, s: String| Some(Violation { oracle: o.to_string(), observed: s });
    if let Res::Panic(m) = &run.result {
        return v("C06.panic", format!("{} panicked: {}", case.entry.name(), m));
    }
    let set_like = matches!(case.entry, MemFront::SetFromIter | MemFront::FstFromIterSet);
    let mut m = Contract::new();
    let mut want = Expect::Ok;
    let mut pulled = 0;
    for (k, val) in &case.items {
        pulled += 1;
        let e = if set_like { m.add(k) } else { m.insert(k, *val) };
        if e != Expect::Ok {
            want = e;
            break;
        }
    }
    if !expect_matches(&want, &run.result) {
        return v(
            "C06.H1.result_differs_from_contract",
            format!(
                "{} over {} items returned {} but the contract says {}",
                case.entry.name(),
                case.items.len(),
                run.result.show(),
                show_expect(&want)
            ),
        );
    }
    if run.pulled != pulled {
        return v(
            "C06.H5.bulk_call_consumed_wrong_count",
            format!("{} pulled {} items, contract says {}", case.entry.name(), run.pulled, pulled),
        );
    }
    if let Some(bytes) = &run.bytes {
        let accepted: Vec<Item> =
            m.accepted.iter().map(|(k, x)| (k.clone(), if set_like { 0 } else { *x })).collect();
        match read_back(bytes) {
            Err(e) => return v("C06.H4.readback_failed", e),
            Ok(rb) => {
                if rb.items != accepted || rb.len != accepted.len() || !rb.verify_ok {
                    return v(
                        "C06.H4.content_differs_from_model",
                        format!("{} entries read back (len()={}), {} accepted", rb.items.len(), rb.len, accepted.len()),
                    );
                }
            }
        }
        let spec = TaskSpec {
            front: if set_like { Front::Set } else { Front::Map },
            registry: None,
            ops: accepted.iter().map(|(k, x)| Op::Ins(k.clone(), *x)).collect(),
            fin: Fin::IntoInner,
        };
        if let (_, Some(refb)) = reference_build(&spec) {
            if &refb != bytes {
                return v(
                    "C06.H4.bytes_differ_from_clean_rebuild",
                    format!("{}: {} bytes vs {} bytes from a builder fed exactly the accepted sequence", case.entry.name(), bytes.len(), refb.len()),
                );
            }
        }
    }
    None
}


// --------------------------------------------- C15: many builders in a row

/// The same sequence built twice in one thread with `between` other builder
/// objects created (and finished empty) in between. "Across repeated runs":
/// what a builder emits must not depend on how many builders the process has
/// created before it — counters that wrap at 2^8 or 2^16 objects included.
#[derive(Clone, Debug, PartialEq, Eq)]
pub struct EpochCase {
    pub items: Vec<Item>,
    pub valued: bool,
    pub between: u64,
}

pub struct EpochRun {
    pub violation: Option<Violation>,
    pub digest: u64,
}

pub fn run_epoch(case: &EpochCase) -> EpochRun {
    let front = if case.valued { MemFront::MapMemory } else { MemFront::SetMemory };
    let r = catch_unwind(AssertUnwindSafe(|| -> Option<Violation> {
        let v = |o: &str, s: String| Some(Violation { oracle: o.to_string(), observed: s });
        let a = match mem_build(front, &case.items, case.valued) {
            Ok(a) => a,
            Err(e) => return v("C15.task_failed", format!("first build: {}", e)),
        };
        for i in 0..case.between {
            // builder objects that come and go without compiling a node
            let ok = match i % 3 {
                0 => raw::Builder::memory().into_inner().is_ok(),
                1 => fst::MapBuilder::memory().into_inner().is_ok(),
                _ => fst::SetBuilder::memory().into_inner().is_ok(),
            };
            if !ok {
                return v("C15.task_failed", format!("empty build {} failed", i));
            }
        }
        let b = match mem_build(front, &case.items, case.valued) {
            Ok(b) => b,
            Err(e) => return v("C15.task_failed", format!("second build: {}", e)),
        };
        if a != b {
            let n = std::cmp::min(a.len(), b.len());
            let p = (0..n).find(|&x| a[x] != b[x]).unwrap_or(n);
            return v(
                "C15.bytes_depend_on_earlier_builders",
                format!(
                    "the same {} entries built before and after {} other (empty) builders in the same thread: {} vs {} bytes, first difference at {}",
                    case.items.len(),
                    case.between,
                    a.len(),
                    b.len(),
                    p
                ),
            );
        }
        None
    }));
    let violation = match r {
        Ok(v) => v,
        Err(p) => Some(Violation { oracle: "C15.panic".into(), observed: panic_msg(p) }),
    };
    let mut d = Digest::new();
    d.u64(case.between);
    d.u64(violation.is_some() as u64);
    EpochRun { violation, digest: d.finish() }
}

// --------------------------------------------------------------- long builds

/// C07, "returning Interrupted any number of times": ONE long build whose
/// sink asks for a retry before every single write call for the whole life of
/// the builder (never twice in a row, every buffer accepted afterwards — a
/// healthy file on a machine with a busy signal handler). Millions of
/// Interrupted in total, none of them part of a burst. The keys come from a
/// generator (zero-padded counter + pseudo-random tail), so the case is three
/// numbers however long the build is.
#[derive(Clone, Debug, PartialEq, Eq)]
pub struct LongCase {
    pub n: u64,
    pub seed: u64,
    pub valued: bool,
    /// every `short_every`-th accepted call takes one byte only (0 = never)
    pub short_every: u64,
}

pub struct LongRun {
    pub violation: Option<Violation>,
    pub digest: u64,
    pub interrupted: u64,
    pub write_calls: u64,
    pub shorts: u64,
    pub bytes: u64,
}

struct LongSink {
    buf: Vec<u8>,
    armed: bool,
    interrupted: u64,
    calls: u64,
    accepted_calls: u64,
    shorts: u64,
    short_every: u64,
}

impl std::io::Write for LongSink {
    fn write(&mut self, b: &[u8]) -> std::io::Result<usize> {
        self.calls += 1;
        if !self.armed {
            self.armed = true;
            self.interrupted += 1;
            return Err(std::io::Error::from(std::io::ErrorKind::Interrupted));
        }
        self.armed = false;
        self.accepted_calls += 1;
        let n = if self.short_every > 0 && b.len() > 1 && self.accepted_calls % self.short_every == 0 {
            self.shorts += 1;
            1
        } else {
            b.len()
        };
        self.buf.extend_from_slice(&b[..n]);
        Ok(n)
    }
    fn flush(&mut self) -> std::io::Result<()> {
        Ok(())
    }
}

pub fn long_key(seed: u64, j: u64, buf: &mut Vec<u8>) -> u64 {
    buf.clear();
    let mut div = 26u64.pow(6);
    let mut rem = j % 26u64.pow(7);
    for _ in 0..7 {
        buf.push(b'a' + (rem / div) as u8);
        rem %= div;
        div = std::cmp::max(1, div / 26);
    }
    let mut x = crate::rng::mix(seed, 0x10c6, j);
    let tail = 2 + (x % 9) as usize;
    for _ in 0..tail {
        x = x.rotate_left(11).wrapping_mul(0x9e37_79b9_7f4a_7c15) ^ j;
        buf.push(b'a' + (x % 23) as u8);
    }
    x % 100_000
}

pub fn run_long(case: &LongCase) -> LongRun {
    let mut run = LongRun { violation: None, digest: 0, interrupted: 0, write_calls: 0, shorts: 0, bytes: 0 };
    let r = catch_unwind(AssertUnwindSafe(|| -> (Option<Violation>, u64, u64, u64, u64) {
        let v = |o: &str, s: String| Some(Violation { oracle: o.to_string(), observed: s });
        let mut key: Vec<u8> = Vec::with_capacity(32);
        // the in-memory build of the same sequence
        let mut m = raw::Builder::memory();
        for j in 0..case.n {
            let val = long_key(case.seed, j, &mut key);
            let r = if case.valued { m.insert(&key, val) } else { m.add(&key) };
            if let Err(e) = r {
                return (v("C07.harness.reference_build_failed", format!("key {}: {}", j, e)), 0, 0, 0, 0);
            }
        }
        let reference = match m.into_inner() {
            Ok(b) => b,
            Err(e) => return (v("C07.harness.reference_build_failed", format!("finish: {}", e)), 0, 0, 0, 0),
        };
        let mut sink = LongSink { buf: Vec::with_capacity(reference.len()), armed: false, interrupted: 0, calls: 0, accepted_calls: 0, shorts: 0, short_every: case.short_every };
        let mut bad: Option<Violation> = None;
        {
            let mut b = match raw::Builder::new(&mut sink) {
                Ok(b) => b,
                Err(e) => return (v("C07.S1.build_failed_on_benign_sink", format!("constructor failed on a sink that returns Interrupted once before every write call: {}", e)), 0, 0, 0, 0),
            };
            for j in 0..case.n {
                let val = long_key(case.seed, j, &mut key);
                let r = if case.valued { b.insert(&key, val) } else { b.add(&key) };
                if let Err(e) = r {
                    bad = v(
                        "C07.S1.build_failed_on_benign_sink",
                        format!("insert {} of {} failed on a sink that returns Interrupted once before every write call and then accepts the buffer: {}", j, case.n, e),
                    );
                    break;
                }
            }
            if bad.is_none() {
                if let Err(e) = b.finish() {
                    bad = v("C07.S1.build_failed_on_benign_sink", format!("finish failed after {} inserts on a sink that returns Interrupted once before every write call: {}", case.n, e));
                }
            }
        }
        let stats = (sink.interrupted, sink.calls, sink.shorts, sink.buf.len() as u64);
        if let Some(mut x) = bad {
            x.observed = format!("{} ({} Interrupted returned so far, {} bytes accepted)", x.observed, sink.interrupted, sink.buf.len());
            return (Some(x), stats.0, stats.1, stats.2, stats.3);
        }
        if sink.buf != reference {
            let n = std::cmp::min(sink.buf.len(), reference.len());
            let p = (0..n).find(|&i| sink.buf[i] != reference[i]).unwrap_or(n);
            return (
                v(
                    "C07.S2.bytes_differ_from_memory_build",
                    format!("{} keys, {} Interrupted in total: sink holds {} bytes, the in-memory build {} bytes, first difference at {}", case.n, sink.interrupted, sink.buf.len(), reference.len(), p),
                ),
                stats.0,
                stats.1,
                stats.2,
                stats.3,
            );
        }
        (None, stats.0, stats.1, stats.2, stats.3)
    }));
    match r {
        Ok((viol, i, c, s, b)) => {
            run.violation = viol;
            run.interrupted = i;
            run.write_calls = c;
            run.shorts = s;
            run.bytes = b;
        }
        Err(p) => run.violation = Some(Violation { oracle: "C07.panic".into(), observed: panic_msg(p) }),
    }
    let mut d = Digest::new();
    d.u64(case.n);
    d.u64(run.interrupted);
    d.u64(run.write_calls);
    d.u64(run.bytes);
    d.u64(run.violation.is_some() as u64);
    run.digest = d.finish();
    run
}
