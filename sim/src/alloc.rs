//! SimAlloc: the allocator seam. A counting global allocator with per-thread
//! cells of *requested* bytes (allocator overhead excluded, so bounds are
//! exact arithmetic). Scenarios run on one thread each, so per-thread
//! accounting isolates them from the other workers of the batch driver.

use std::alloc::{GlobalAlloc, Layout, System};
use std::cell::Cell;

pub struct SimAlloc;

thread_local! {
    static LIVE: Cell<i64> = const { Cell::new(0) };
    static PEAK: Cell<i64> = const { Cell::new(0) };
    static COUNT: Cell<u64> = const { Cell::new(0) };
    static BYTES: Cell<u64> = const { Cell::new(0) };
}

#[inline]
fn add(n: i64) {
    let _ = LIVE.try_with(|l| {
        let v = l.get() + n;
        l.set(v);
        if n > 0 {
            let _ = PEAK.try_with(|p| {
                if v > p.get() {
                    p.set(v)
                }
            });
        }
    });
}

unsafe impl GlobalAlloc for SimAlloc {
    unsafe fn alloc(&self, layout: Layout) -> *mut u8 {
        let p = System.alloc(layout);
        if !p.is_null() {
            add(layout.size() as i64);
            let _ = COUNT.try_with(|c| c.set(c.get() + 1));
            let _ = BYTES.try_with(|c| c.set(c.get() + layout.size() as u64));
        }
        p
    }
    unsafe fn dealloc(&self, ptr: *mut u8, layout: Layout) {
        System.dealloc(ptr, layout);
        add(-(layout.size() as i64));
    }
    unsafe fn alloc_zeroed(&self, layout: Layout) -> *mut u8 {
        let p = System.alloc_zeroed(layout);
        if !p.is_null() {
            add(layout.size() as i64);
            let _ = COUNT.try_with(|c| c.set(c.get() + 1));
            let _ = BYTES.try_with(|c| c.set(c.get() + layout.size() as u64));
        }
        p
    }
    unsafe fn realloc(&self, ptr: *mut u8, layout: Layout, new_size: usize) -> *mut u8 {
        let p = System.realloc(ptr, layout, new_size);
        if !p.is_null() {
            add(new_size as i64 - layout.size() as i64);
            let _ = COUNT.try_with(|c| c.set(c.get() + 1));
            if new_size > layout.size() {
                let _ = BYTES
                    .try_with(|c| c.set(c.get() + (new_size - layout.size()) as u64));
            }
        }
        p
    }
}

/// Snapshot of this thread's counters.
#[derive(Clone, Copy, Debug, Default)]
pub struct Mark {
    pub live: i64,
    pub count: u64,
    pub bytes: u64,
}

pub fn mark() -> Mark {
    Mark { live: LIVE.with(|c| c.get()), count: COUNT.with(|c| c.get()), bytes: BYTES.with(|c| c.get()) }
}

/// Restart peak tracking from the current live value.
pub fn reset_peak() {
    let l = LIVE.with(|c| c.get());
    PEAK.with(|p| p.set(l));
}

pub fn peak() -> i64 {
    PEAK.with(|p| p.get())
}

pub fn live() -> i64 {
    LIVE.with(|c| c.get())
}
