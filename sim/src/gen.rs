//! Seeded workload generation shared by all scenarios (DESIGN §4). Everything
//! is drawn from the run's PRNG; classes are mixed swarm-style.

use std::collections::BTreeMap;

use crate::front::{Fin, Front, Item, Op, TaskSpec, Via};
use crate::rng::Rng;
use crate::sink::{Shape, INJECTABLE};

pub const GEOMETRIES: [Option<(usize, usize)>; 10] = [
    Some((0, 0)),
    Some((1, 1)),
    Some((1, 2)),
    Some((2, 2)),
    Some((3, 3)),
    Some((7, 4)),
    Some((2, 1)),
    Some((64, 2)),
    Some((5, 7)),
    None,
];

/// Geometry knob: small caches dominate (eviction paths), the shipped one
/// stays in the mix.
pub fn geometry(rng: &mut Rng) -> Option<(usize, usize)> {
    if rng.chance(1, 12) {
        None
    } else {
        GEOMETRIES[rng.usize_below(GEOMETRIES.len() - 1)]
    }
}

const BOUNDARY_VALUES: [u64; 22] = [
    0,
    1,
    2,
    0xff,
    0x100,
    0xffff,
    0x1_0000,
    0xff_ffff,
    0x100_0000,
    0xffff_ffff,
    0x1_0000_0000,
    0xff_ffff_ffff,
    0x100_0000_0000,
    0xffff_ffff_ffff,
    0x1_0000_0000_0000,
    0xff_ffff_ffff_ffff,
    0x100_0000_0000_0000,
    u64::MAX,
    u64::MAX - 1,
    0x7fff_ffff_ffff_ffff,
    0x8000_0000_0000_0000,
    3,
];

#[derive(Clone, Copy, Debug)]
pub enum ValueStyle {
    Zero,
    Boundary,
    Increasing,
    Decreasing,
    Constant,
    Random,
    Small,
}

pub fn value_style(rng: &mut Rng) -> ValueStyle {
    *rng.pick(&[
        ValueStyle::Boundary,
        ValueStyle::Boundary,
        ValueStyle::Increasing,
        ValueStyle::Decreasing,
        ValueStyle::Constant,
        ValueStyle::Random,
        ValueStyle::Small,
        ValueStyle::Zero,
    ])
}

fn assign_values(rng: &mut Rng, n: usize, style: ValueStyle) -> Vec<u64> {
    let mut out = Vec::with_capacity(n);
    match style {
        ValueStyle::Zero => out.resize(n, 0),
        ValueStyle::Boundary => {
            for _ in 0..n {
                out.push(*rng.pick(&BOUNDARY_VALUES));
            }
        }
        ValueStyle::Increasing => {
            let mut v = *rng.pick(&[0u64, 1, 250, 65530, 1 << 32]);
            let step = *rng.pick(&[1u64, 1, 2, 255, 256, 1 << 16, 1 << 40]);
            for _ in 0..n {
                out.push(v);
                v = v.saturating_add(1 + rng.below(step));
            }
        }
        ValueStyle::Decreasing => {
            let mut v = *rng.pick(&[u64::MAX, 1 << 33, 70000, 300]);
            let step = *rng.pick(&[1u64, 2, 255, 256, 1 << 16]);
            for _ in 0..n {
                out.push(v);
                v = v.saturating_sub(1 + rng.below(step));
            }
        }
        ValueStyle::Constant => {
            let c = *rng.pick(&BOUNDARY_VALUES);
            out.resize(n, c);
        }
        ValueStyle::Random => {
            for _ in 0..n {
                let bits = rng.range(0, 64);
                let v = if bits == 64 {
                    rng.next_u64()
                } else {
                    rng.next_u64() & ((1u64 << bits) - 1)
                };
                out.push(v);
            }
        }
        ValueStyle::Small => {
            for _ in 0..n {
                out.push(rng.below(4));
            }
        }
    }
    out
}

/// Draw a set of distinct keys (returned sorted).
pub fn keys(rng: &mut Rng, max_keys: usize) -> Vec<Vec<u8>> {
    let mut set: BTreeMap<Vec<u8>, ()> = BTreeMap::new();
    let n = match rng.below(10) {
        0 => 0,
        1 => 1,
        2 | 3 => rng.urange(2, 6),
        4 | 5 | 6 => rng.urange(2, std::cmp::min(40, max_keys).max(2)),
        _ => rng.urange(2, max_keys.max(2)),
    };
    // swarm: enable a random subset of key classes for this run
    let classes = rng.next_u64();
    let on = |c: u32| classes & (1 << c) != 0 || classes & 0xff == 0;
    let alphabet: Vec<u8> = match rng.below(5) {
        0 => b"ab".to_vec(),
        1 => b"abcdefghijklmnopqrstuvwxyz".to_vec(),
        2 => vec![0, 1, 0x7f, 0x80, 0xfe, 0xff],
        3 => b"etaoin\x00\xff".to_vec(), // common + uncommon input bytes
        _ => (0..=255u8).collect(),
    };
    if on(0) && rng.chance(1, 3) {
        set.insert(vec![], ());
    }
    // fan-out class at the root or below a shared prefix
    if on(1) {
        let f = *rng.pick(&[2usize, 31, 32, 33, 63, 64, 65, 255, 256]);
        let f = std::cmp::min(f, max_keys.max(2));
        let prefix: Vec<u8> = if rng.chance(1, 2) {
            vec![]
        } else {
            let l = rng.urange(1, 3);
            (0..l).map(|_| *rng.pick(&alphabet)).collect()
        };
        let start = if f >= 256 { 0 } else { rng.usize_below(256 - f + 1) };
        let tail: Vec<u8> = if rng.chance(1, 2) {
            vec![]
        } else {
            vec![*rng.pick(&alphabet)]
        };
        for b in start..start + f {
            let mut k = prefix.clone();
            k.push(b as u8);
            if rng.chance(1, 2) {
                k.extend_from_slice(&tail);
            }
            set.insert(k, ());
        }
    }
    let long = on(2) && rng.chance(1, 6);
    let maxlen = if long {
        *rng.pick(&[64usize, 255, 256, 257, 1000, 2048])
    } else {
        *rng.pick(&[1usize, 2, 3, 4, 6, 8, 12])
    };
    let mut guard = 0;
    while set.len() < n && guard < n * 20 + 50 {
        guard += 1;
        let mut k: Vec<u8>;
        let existing: Option<Vec<u8>> = if !set.is_empty() && rng.chance(1, 2)
        {
            let idx = rng.usize_below(set.len());
            set.keys().nth(idx).cloned()
        } else {
            None
        };
        match (rng.below(6), existing) {
            // extension of an existing key (prefix relation, final outputs)
            (0, Some(e)) if on(3) => {
                k = e;
                let add = rng.urange(1, 3);
                for _ in 0..add {
                    k.push(*rng.pick(&alphabet));
                }
            }
            // proper prefix of an existing key
            (1, Some(e)) if on(3) && !e.is_empty() => {
                let l = rng.usize_below(e.len());
                k = e[..l].to_vec();
            }
            // shared prefix, different suffix
            (2, Some(e)) if on(4) && !e.is_empty() => {
                let l = rng.urange(0, e.len() - 1);
                k = e[..l].to_vec();
                let add = rng.urange(1, 3);
                for _ in 0..add {
                    k.push(*rng.pick(&alphabet));
                }
            }
            // shared suffix, different head
            (3, Some(e)) if on(5) && !e.is_empty() => {
                let l = rng.urange(0, e.len() - 1);
                k = vec![*rng.pick(&alphabet)];
                if rng.chance(1, 2) {
                    k.push(*rng.pick(&alphabet));
                }
                k.extend_from_slice(&e[l..]);
            }
            _ => {
                let l = if long && rng.chance(1, 4) {
                    maxlen
                } else {
                    rng.urange(if on(0) { 0 } else { 1 }, std::cmp::min(maxlen, 12))
                };
                k = (0..l).map(|_| *rng.pick(&alphabet)).collect();
            }
        }
        if k.len() > 2048 {
            k.truncate(2048);
        }
        set.insert(k, ());
    }
    set.into_keys().collect()
}

/// A legal accepted sequence: strictly increasing keys with values.
pub fn sequence(rng: &mut Rng, max_keys: usize, valued: bool) -> Vec<Item> {
    let ks = keys(rng, max_keys);
    let style = if valued { value_style(rng) } else { ValueStyle::Zero };
    let vs = assign_values(rng, ks.len(), style);
    ks.into_iter().zip(vs).collect()
}

/// Group a sequence of items into public calls for a front end.
pub fn group_ops(rng: &mut Rng, front: Front, items: &[Item]) -> Vec<Op> {
    // style: 0 = singles, 1 = one bulk call, 2 = mixed chunks
    let style = rng.below(4);
    let mut ops = Vec::new();
    let mut i = 0;
    while i < items.len() {
        let chunk = match style {
            0 => 1,
            1 => items.len() - i,
            _ => match rng.below(3) {
                0 => 1,
                _ => rng.urange(1, std::cmp::min(items.len() - i, 9)),
            },
        };
        let part = items[i..i + chunk].to_vec();
        i += chunk;
        let single = chunk == 1 && (style == 0 || rng.chance(2, 3));
        if single {
            let (k, v) = part.into_iter().next().unwrap();
            if front == Front::Raw && v == 0 && rng.chance(1, 2) {
                ops.push(Op::Add(k));
            } else {
                ops.push(Op::Ins(k, v));
            }
        } else if rng.chance(1, 2) {
            ops.push(Op::ExtIter(part));
        } else {
            let via = *rng.pick(&[Via::Vec, Via::Fst, Via::Range, Via::Union]);
            ops.push(Op::ExtStream(part, via));
        }
    }
    if items.is_empty() && rng.chance(1, 3) {
        ops.push(Op::ExtIter(vec![]));
    }
    ops
}

pub fn front(rng: &mut Rng, valued: bool) -> Front {
    if valued {
        *rng.pick(&[Front::Map, Front::Map, Front::Raw])
    } else {
        *rng.pick(&[Front::Set, Front::Set, Front::Raw])
    }
}

pub fn fin(rng: &mut Rng) -> Fin {
    if rng.chance(1, 2) {
        Fin::Finish
    } else {
        Fin::IntoInner
    }
}

/// A legal build task.
pub fn legal_task(rng: &mut Rng, max_keys: usize) -> (TaskSpec, Vec<Item>) {
    let valued = rng.chance(2, 3);
    let fr = front(rng, valued);
    let items = sequence(rng, max_keys, valued);
    let ops = group_ops(rng, fr, &items);
    (
        TaskSpec { front: fr, registry: geometry(rng), ops, fin: fin(rng) },
        items,
    )
}

/// A map in which pairs of DIFFERENT sibling nodes have the same 64-bit
/// FNV-1a value under the hash the node cache documents (is_final,
/// final_output, then inp / out / addr per transition): {final, a -> out1}
/// and {final, b -> out2} with out2 solved from out1. Such nodes meet in the
/// same cache bucket with the same full hash and are compiled one right after
/// the other; only a real comparison of the nodes tells them apart. (If the
/// library hashes differently these are ordinary keys.)
pub fn fnv_colliding_task(rng: &mut Rng) -> (TaskSpec, Vec<Item>) {
    const P: u64 = 1099511628211;
    let h0 = {
        let mut h: u64 = 14695981039346656037;
        h = (h ^ 1).wrapping_mul(P); // is_final
        h = (h ^ 0).wrapping_mul(P); // final_output
        h
    };
    let groups = rng.urange(1, 3);
    let mut parents: Vec<u8> = Vec::new();
    while parents.len() < 2 * groups {
        let b = *rng.pick(b"bcdefghijklmnopqrstuvwxy");
        if !parents.contains(&b) {
            parents.push(b);
        }
    }
    parents.sort();
    let mut items: Vec<Item> = Vec::new();
    for g in 0..groups {
        let (p1, p2) = (parents[2 * g], parents[2 * g + 1]);
        let a = rng.next_u64() as u8;
        let mut b = rng.next_u64() as u8;
        if b == a {
            b = a.wrapping_add(1);
        }
        let out1 = 1 + rng.below(1 << 20);
        let out2 = out1 ^ (h0 ^ a as u64).wrapping_mul(P) ^ (h0 ^ b as u64).wrapping_mul(P);
        items.push((vec![p1], 0));
        items.push((vec![p1, a], out1));
        items.push((vec![p2], 0));
        items.push((vec![p2, b], out2));
    }
    if rng.chance(1, 2) {
        items.insert(0, (b"a".to_vec(), 0));
    }
    if rng.chance(1, 2) {
        items.push((b"z".to_vec(), 0));
    }
    let fr = *rng.pick(&[Front::Map, Front::Raw]);
    let ops = group_ops(rng, fr, &items);
    (TaskSpec { front: fr, registry: geometry(rng), ops, fin: fin(rng) }, items)
}

/// Put a common prefix in front of every key of a call history.
pub fn lengthen(ops: &mut Vec<Op>, prefix: &[u8]) {
    let f = |k: &Vec<u8>| -> Vec<u8> {
        let mut x = prefix.to_vec();
        x.extend_from_slice(k);
        x
    };
    for o in ops.iter_mut() {
        match o {
            Op::Ins(k, _) | Op::Add(k) => *k = f(k),
            Op::ExtIter(it) | Op::ExtStream(it, _) => {
                for (k, _) in it.iter_mut() {
                    *k = f(k);
                }
            }
        }
    }
}

/// Turn every key of a call history into *text*: a common prefix of valid
/// UTF-8 made of multi-byte characters (after 0..3 ASCII bytes, so that the
/// character boundaries fall on no round offset), followed by the key in
/// hexadecimal. Order, equality and the prefix relation between keys are
/// preserved, so a legal history stays legal. Code that formats, measures or
/// cuts keys as strings (messages attached to errors, say) sees offsets 16,
/// 32, 64, 128 and 256 inside a character.
pub fn textify(ops: &mut Vec<Op>, rng: &mut Rng) {
    let ch: &str = *rng.pick(&["\u{e9}", "\u{20ac}", "\u{1f600}", "\u{20ac}"]);
    let pad = rng.usize_below(4);
    let total = *rng.pick(&[20usize, 40, 70, 70, 130, 140, 260, 300]);
    let mut prefix = String::new();
    for _ in 0..pad {
        prefix.push('k');
    }
    while prefix.len() < total {
        prefix.push_str(ch);
    }
    let f = |k: &Vec<u8>| -> Vec<u8> {
        let mut x = prefix.clone().into_bytes();
        for b in k {
            x.extend_from_slice(format!("{:02x}", b).as_bytes());
        }
        x
    };
    for o in ops.iter_mut() {
        match o {
            Op::Ins(k, _) | Op::Add(k) => *k = f(k),
            Op::ExtIter(it) | Op::ExtStream(it, _) => {
                for (k, _) in it.iter_mut() {
                    *k = f(k);
                }
            }
        }
    }
}

/// Benign acceptance shape (nothing may fail).
pub fn benign_shape(rng: &mut Rng) -> Shape {
    match rng.below(8) {
        0 => Shape::Full,
        1 | 2 => Shape::Cap(*rng.pick(&[
            1usize, 1, 2, 3, 4, 5, 7, 8, 9, 15, 16, 17, 31, 32, 33, 64, 255,
        ])),
        3 => Shape::Storm,
        4 => Shape::Random { short_16: 16, intr_16: 0 },
        5 => Shape::Random { short_16: 2, intr_16: 2 },
        6 => Shape::Random { short_16: 8, intr_16: 4 },
        _ => Shape::Random { short_16: 1, intr_16: 0 },
    }
}

pub fn bufcap(rng: &mut Rng) -> Option<usize> {
    if rng.chance(1, 2) {
        None
    } else {
        // a third of the buffered runs draws the capacity uniformly: the
        // fill level at which a large write arrives matters (a buffer that
        // has 1 or 2 spare bytes after a 256-byte index behaves differently
        // from one that has none or plenty)
        if rng.chance(1, 3) {
            Some(rng.urange(1, 1200))
        } else {
            Some(*rng.pick(&[0usize, 1, 2, 3, 7, 8, 16, 17, 64, 255, 256, 257, 300]))
        }
    }
}

/// Insert calls that the ordering contract rejects between the legal calls
/// of `ops` (the accepted sequence stays the same): duplicates of the last
/// key with smaller / larger / equal values and keys below the last key.
pub fn with_rejected_noise(rng: &mut Rng, front: Front, ops: &[Op]) -> Vec<Op> {
    let mut out = Vec::new();
    let mut last: Option<(Vec<u8>, u64)> = None;
    for op in ops {
        out.push(op.clone());
        match op {
            Op::Ins(k, v) => last = Some((k.clone(), *v)),
            Op::Add(k) => last = Some((k.clone(), 0)),
            Op::ExtIter(it) | Op::ExtStream(it, _) => {
                if let Some(x) = it.last() {
                    last = Some(x.clone());
                }
            }
        }
        if let Some((k, v)) = &last {
            if rng.chance(1, 3) {
                match rng.below(6) {
                    // a BULK call that ends early: its first item is a key
                    // below the last one (refused for every front end)
                    4 | 5 if !k.is_empty() => {
                        let cut = rng.usize_below(k.len());
                        let items = vec![(k[..cut].to_vec(), 7), (k.clone(), *v)];
                        out.push(if rng.chance(1, 2) { Op::ExtIter(items) } else { Op::ExtStream(items, Via::Vec) });
                    }
                    4 | 5 => {}
                    // duplicate of the last key (rejected by map/raw insert;
                    // a no-op for a set)
                    0 => out.push(Op::Ins(k.clone(), v.saturating_sub(1 + rng.below(5)))),
                    1 => out.push(Op::Ins(k.clone(), v.saturating_add(1 + rng.below(5)))),
                    2 => out.push(Op::Ins(k.clone(), *v)),
                    // a key below the last one
                    _ => {
                        if !k.is_empty() {
                            let cut = rng.usize_below(k.len());
                            out.push(if front == Front::Raw && rng.chance(1, 2) {
                                Op::Add(k[..cut].to_vec())
                            } else {
                                Op::Ins(k[..cut].to_vec(), 7)
                            });
                        }
                    }
                }
            }
        }
    }
    out
}

pub fn prefill(rng: &mut Rng) -> Vec<u8> {
    if rng.chance(3, 4) {
        vec![]
    } else {
        let n = *rng.pick(&[1usize, 3, 16, 36, 100]);
        (0..n).map(|_| rng.next_u64() as u8).collect()
    }
}

pub fn err_kind(rng: &mut Rng) -> crate::sink::ErrKind {
    *rng.pick(&INJECTABLE)
}

/// A legal task whose FST has at least one node with more than 32
/// transitions (the transition index, the 256-transition escape), whose
/// prefix key is itself a key with a large value about half of the time
/// (so that the wide node carries a final output).
pub fn wide_task(rng: &mut Rng, small: bool) -> (TaskSpec, Vec<Item>) {
    let valued = rng.chance(3, 4);
    let fr = front(rng, valued);
    let fan = match if small { 7 } else { rng.below(8) } {
        0 => 256usize,
        1 => 64,
        2 => 255,
        _ => rng.urange(33, if small { 38 } else { 44 }),
    };
    // one prefix, or the same fan repeated under 2-3 prefixes (identical
    // wide sub-automata: the node cache must hand out the right address for
    // the second and third occurrence, also after evictions)
    let prefixes: Vec<Vec<u8>> = match rng.below(6) {
        0 => vec![vec![]],
        1 => vec![vec![*rng.pick(b"ab")]],
        2 => vec![vec![*rng.pick(b"ab"), *rng.pick(b"xy")]],
        3 => vec![b"a".to_vec(), b"b".to_vec()],
        4 => vec![b"ax".to_vec(), b"ay".to_vec(), b"b".to_vec()],
        _ => vec![b"a".to_vec(), b"ba".to_vec(), b"bb".to_vec()],
    };
    let repeated = prefixes.len() > 1;
    let start = if fan >= 256 { 0 } else { rng.usize_below(256 - fan + 1) };
    let mut set: BTreeMap<Vec<u8>, ()> = BTreeMap::new();
    let prefix_is_key = rng.chance(1, 2);
    let tail_mode = rng.below(3);
    for prefix in &prefixes {
        if prefix_is_key {
            set.insert(prefix.clone(), ());
        }
        for b in start..start + fan {
            let mut k = prefix.clone();
            k.push(b as u8);
            match tail_mode {
                0 => {}
                1 => k.push(b'z'),
                _ => {
                    if b % 3 == 0 {
                        k.push(if b % 2 == 0 { b'q' } else { b'z' });
                    }
                }
            }
            set.insert(k, ());
        }
    }
    // a few unrelated keys first in order (they occupy cache cells before
    // the wide nodes arrive)
    for _ in 0..rng.urange(0, 4) {
        let l = rng.urange(0, 3);
        let k: Vec<u8> = (0..l).map(|_| *rng.pick(b"abxyz")).collect();
        set.insert(k, ());
    }
    if repeated || rng.chance(1, 2) {
        for k in [&b"0"[..], &b"01"[..], &b"1zz"[..], &b"2"[..]] {
            set.insert(k.to_vec(), ());
        }
    }
    let ks: Vec<Vec<u8>> = set.into_keys().collect();
    let style = if !valued {
        ValueStyle::Zero
    } else if repeated && rng.chance(2, 3) {
        // equal outputs everywhere keep the repeated sub-automata identical
        *rng.pick(&[ValueStyle::Constant, ValueStyle::Zero])
    } else {
        *rng.pick(&[
            ValueStyle::Decreasing,
            ValueStyle::Boundary,
            ValueStyle::Random,
            ValueStyle::Increasing,
            ValueStyle::Constant,
        ])
    };
    let vs = assign_values(rng, ks.len(), style);
    let items: Vec<Item> = ks.into_iter().zip(vs).collect();
    let ops = group_ops(rng, fr, &items);
    (TaskSpec { front: fr, registry: geometry(rng), ops, fin: fin(rng) }, items)
}

/// Small task for sweeps: mostly <= `max_keys` keys, sometimes a wide one.
pub fn sweep_task(rng: &mut Rng, max_keys: usize, wide_1_in: u64) -> (TaskSpec, Vec<Item>) {
    if rng.chance(1, wide_1_in) {
        wide_task(rng, true)
    } else {
        legal_task(rng, max_keys)
    }
}
