//! Batch driver: seeded search over run indices on N worker threads, with
//! results independent of the worker count; evidence; replay files.

use std::collections::BTreeMap;
use std::sync::atomic::{AtomicBool, AtomicU64, Ordering};
use std::sync::{Arc, Mutex};
use std::time::Instant;

use serde_json::{json, Value};

use crate::case::{case_from, case_to, summary, Case};
use crate::exec::{exec, harness_error};
use crate::minimise::Minimiser;
use crate::oracle::Violation;

#[derive(Clone, Copy, Debug, PartialEq, Eq)]
pub enum Tier {
    Quick,
    Thorough,
}

impl Tier {
    pub fn name(self) -> &'static str {
        match self {
            Tier::Quick => "quick",
            Tier::Thorough => "thorough",
        }
    }
}

#[derive(Clone, Debug)]
pub struct Cfg {
    pub prop: String,
    pub seed: u64,
    pub tier: Tier,
    pub workers: usize,
    /// multiplies the number of run indices (VERIF_SCALE, default 1.0)
    pub scale: f64,
    pub verif_dir: String,
    pub known_oracles: Vec<String>,
}

pub struct Found {
    pub idx: u64,
    pub case: Case,
    pub violation: Violation,
    /// run indices the reporting worker thread had executed before (and
    /// including) this one, in order: what the code under test had been
    /// through in this thread when it failed
    pub history: Vec<u64>,
}

#[derive(Default)]
pub struct Stats {
    pub evaluations: u64,
    pub nontrivial: Vec<u64>,
    pub all_digest: u64,
    pub counters: BTreeMap<&'static str, u64>,
    pub steps: u64,
    pub samples: Vec<(u64, Value)>,
    pub found: Vec<Found>,
    pub exhaustive_scopes: BTreeMap<String, u64>,
    pub notes: BTreeMap<String, Value>,
    /// per-index digests when a determinism proof asks for them
    pub keep_index_digests: bool,
    pub index_digests: Vec<(u64, u64)>,
    /// oracle ids listed as known findings for this property: counted, not
    /// treated as fresh violations
    pub known_oracles: Vec<String>,
    pub known_hits: BTreeMap<String, u64>,
    pub bulk: BTreeMap<u64, u64>,
    pub details: Vec<(u64, Value)>,
    cur_idx: u64,
    cur_idx_digest: u64,
}

impl Stats {
    /// Execute one case, account for it; returns true if it violated.
    pub fn report(&mut self, prop: &str, case: &Case) -> bool {
        let o = exec(prop, case);
        self.evaluations += 1;
        self.steps += o.steps;
        self.all_digest = self.all_digest.rotate_left(7) ^ o.digest;
        self.cur_idx_digest = self.cur_idx_digest.rotate_left(9) ^ o.digest.wrapping_mul(0x9E37_79B9_7F4A_7C15);
        if o.nontrivial {
            self.nontrivial.push(o.digest);
        }
        for (k, n) in &o.tags {
            if *n > 0 {
                *self.counters.entry(k).or_insert(0) += *n;
            }
        }
        let idx = self.cur_idx;
        if !o.detail.is_null() && self.details.len() < 64 {
            self.details.push((idx, o.detail.clone()));
        }
        if self.samples.len() < 4 && (o.nontrivial || self.samples.is_empty()) {
            self.samples.push((
                idx,
                json!({
                    "run_index": idx,
                    "case": summary(&o.explicit),
                    "outcome": match &o.violation { None => "held".to_string(), Some(v) => format!("VIOLATED {}", v.oracle) },
                    "log_digest": format!("{:016x}", o.digest),
                }),
            ));
        }
        if let Some(v) = o.violation {
            if self.known_oracles.iter().any(|k| *k == v.oracle) {
                *self.known_hits.entry(v.oracle).or_insert(0) += 1;
                return false;
            }
            self.found.push(Found { idx, case: o.explicit, violation: v, history: Vec::new() });
            true
        } else {
            false
        }
    }

    /// Account for `n` distinct cases evaluated in bulk on one artifact
    /// (identified by its digest): they are distinct by construction.
    pub fn bulk(&mut self, artifact_digest: u64, n: u64) {
        self.evaluations += n;
        self.steps += 3 * n;
        self.bulk.insert(artifact_digest, n);
    }

    pub fn count(&mut self, k: &'static str, n: u64) {
        *self.counters.entry(k).or_insert(0) += n;
    }

    pub fn begin_index(&mut self, idx: u64) {
        self.cur_idx = idx;
        self.cur_idx_digest = idx;
    }
    pub fn end_index(&mut self) {
        if self.keep_index_digests {
            self.index_digests.push((self.cur_idx, self.cur_idx_digest));
        }
    }

    fn merge(&mut self, o: Stats) {
        self.evaluations += o.evaluations;
        self.nontrivial.extend(o.nontrivial);
        self.steps += o.steps;
        for (k, n) in o.counters {
            *self.counters.entry(k).or_insert(0) += n;
        }
        self.samples.extend(o.samples);
        self.found.extend(o.found);
        for (k, n) in o.exhaustive_scopes {
            *self.exhaustive_scopes.entry(k).or_insert(0) += n;
        }
        for (k, v) in o.notes {
            self.notes.insert(k, v);
        }
        self.index_digests.extend(o.index_digests);
        self.details.extend(o.details);
        for (k, n) in o.bulk {
            self.bulk.insert(k, n);
        }
        for (k, n) in o.known_hits {
            *self.known_hits.entry(k).or_insert(0) += n;
        }
    }
}

/// Control characters (NUL included) escaped: stdout stays text.
pub fn printable(s: &str) -> String {
    s.chars().map(|c| if c.is_control() && c != ' ' { format!("\\x{:02x}", c as u32) } else { c.to_string() }).collect()
}

pub type Scenario = fn(&Cfg, u64, &mut Stats);

/// "checked" (debug assertions + overflow checks on, the default) or "plain"
/// (both off): which build of the simulator and the library this process is.
pub fn build_profile() -> String {
    std::env::var("VERIF_PROFILE").unwrap_or_else(|_| "checked".to_string())
}
fn profile_suffix() -> &'static str {
    if build_profile() == "plain" {
        "-plain"
    } else {
        ""
    }
}

pub struct BatchResult {
    pub stats: Stats,
    pub wall_s: f64,
    pub indices_done: u64,
}

/// Run indices 0..n over the workers. Indices are handed out in increasing
/// order and a worker always completes the index it took, so the smallest
/// violating index is found whatever the worker count.
pub fn run_batch(cfg: &Cfg, n: u64, scenario: Scenario, keep_index_digests: bool) -> BatchResult {
    let t0 = Instant::now();
    let next = Arc::new(AtomicU64::new(0));
    let stop = Arc::new(AtomicBool::new(false));
    let merged = Arc::new(Mutex::new(Stats::default()));
    let workers = std::cmp::max(1, std::cmp::min(cfg.workers as u64, n)) as usize;
    std::thread::scope(|s| {
        for _ in 0..workers {
            let next = next.clone();
            let stop = stop.clone();
            let merged = merged.clone();
            let cfg = cfg.clone();
            std::thread::Builder::new()
                .stack_size(64 << 20)
                .spawn_scoped(s, move || {
                    let mut st = Stats::default();
                    st.keep_index_digests = keep_index_digests;
                    st.known_oracles = cfg.known_oracles.clone();
                    let mut history: Vec<u64> = Vec::new();
                    loop {
                        if stop.load(Ordering::SeqCst) {
                            break;
                        }
                        let i = next.fetch_add(1, Ordering::SeqCst);
                        if i >= n {
                            break;
                        }
                        st.begin_index(i);
                        let before = st.found.len();
                        history.push(i);
                        scenario(&cfg, i, &mut st);
                        st.end_index();
                        if st.found.len() > before {
                            for f in st.found[before..].iter_mut() {
                                f.history = history.clone();
                            }
                            stop.store(true, Ordering::SeqCst);
                        }
                    }
                    merged.lock().unwrap().merge(st);
                })
                .expect("spawn worker");
        }
    });
    let mut stats = std::mem::take(&mut *merged.lock().unwrap());
    stats.samples.sort_by_key(|s| s.0);
    stats.samples.truncate(5);
    stats.found.sort_by_key(|f| f.idx);
    stats.index_digests.sort();
    stats.details.sort_by_key(|d| d.0);
    let done = std::cmp::min(next.load(Ordering::SeqCst), n);
    BatchResult { stats, wall_s: t0.elapsed().as_secs_f64(), indices_done: done }
}

pub fn distinct(v: &mut Vec<u64>) -> u64 {
    v.sort_unstable();
    v.dedup();
    v.len() as u64
}

// ------------------------------------------------------------ known findings

pub struct Known {
    /// (property, oracle, rest-of-line)
    pub findings: Vec<(String, String, String)>,
}

pub fn load_known(verif_dir: &str) -> Known {
    let mut findings = Vec::new();
    let p = format!("{}/KNOWN_FINDINGS.txt", verif_dir);
    if let Ok(s) = std::fs::read_to_string(&p) {
        for line in s.lines() {
            let line = line.trim();
            if let Some(rest) = line.strip_prefix("finding:") {
                let mut prop = String::new();
                let mut oracle = String::new();
                for tok in rest.split_whitespace() {
                    if let Some(x) = tok.strip_prefix("property=") {
                        prop = x.to_string();
                    }
                    if let Some(x) = tok.strip_prefix("oracle=") {
                        oracle = x.to_string();
                    }
                }
                if !prop.is_empty() && !oracle.is_empty() {
                    findings.push((prop, oracle, rest.trim().to_string()));
                }
            }
            // "fixed:" lines suppress nothing
        }
    }
    Known { findings }
}

impl Known {
    pub fn matches(&self, prop: &str, oracle: &str) -> Option<&str> {
        self.findings
            .iter()
            .find(|(p, o, _)| p == prop && o == oracle)
            .map(|(_, _, r)| &r[..])
    }
}

// ------------------------------------------------------------------ replays

pub fn write_replay(
    cfg: &Cfg,
    found: &Found,
    minimised: &Case,
    min_violation: &Violation,
    min_digest: u64,
    min_execs: u64,
) -> String {
    let dir = format!("{}/replays", cfg.verif_dir);
    let _ = std::fs::create_dir_all(&dir);
    let path = format!("{}/{}-{}-{}{}.json", dir, cfg.prop, cfg.seed, found.idx, profile_suffix());
    let v = json!({
        "property": cfg.prop,
        "oracle": min_violation.oracle,
        "engine": "A",
        "build_profile": build_profile(),
        "kind": minimised.kind(),
        "seed": cfg.seed,
        "run": found.idx,
        "minimised": true,
        "minimiser_executions": min_execs,
        "case": case_to(minimised),
        "log_digest": format!("{:016x}", min_digest),
        "observed": min_violation.observed,
        "original_case": case_to(&found.case),
        "original_observed": found.violation.observed,
    });
    let s = serde_json::to_string_pretty(&v).unwrap();
    if let Err(e) = std::fs::write(&path, s) {
        harness_error(format!("cannot write replay {}: {}", path, e));
    }
    path
}

/// Replay a file in this (fresh) process. Exit code semantics: 1 = the
/// violation reproduced exactly (same oracle, same log digest); 0 = the case
/// no longer fails; 2 = it fails differently (divergence).
pub fn replay(path: &str) -> i32 {
    let s = match std::fs::read_to_string(path) {
        Ok(s) => s,
        Err(e) => harness_error(format!("cannot read {}: {}", path, e)),
    };
    let v: Value = match serde_json::from_str(&s) {
        Ok(v) => v,
        Err(e) => harness_error(format!("bad json in {}: {}", path, e)),
    };
    let prop = v["property"].as_str().unwrap_or("").to_string();
    let oracle = v["oracle"].as_str().unwrap_or("").to_string();
    let digest = v["log_digest"].as_str().unwrap_or("").to_string();
    let case = match case_from(&v["case"]) {
        Ok(c) => c,
        Err(e) => harness_error(format!("bad case in {}: {}", path, e)),
    };
    crate::front::install_quiet_panic_hook();
    let o = exec(&prop, &case);
    let got_digest = format!("{:016x}", o.digest);
    match o.violation {
        None => {
            println!("REPLAY property={} file={}: no violation (case holds on this tree) digest={}", prop, path, got_digest);
            0
        }
        Some(vi) => {
            if vi.oracle == oracle && got_digest == digest {
                println!("REPLAY reproduced exactly: oracle={} digest={}", vi.oracle, got_digest);
                println!("  observed: {}", printable(&vi.observed));
                println!("VIOLATION property={} replay={}", prop, path);
                1
            } else if vi.oracle == oracle {
                println!(
                    "REPLAY reproduced oracle={} but log digest differs (file {}, now {}): the code under test changed since the file was written",
                    vi.oracle, digest, got_digest
                );
                println!("  observed: {}", printable(&vi.observed));
                println!("VIOLATION property={} replay={}", prop, path);
                1
            } else {
                println!("REPLAY DIVERGED: file says oracle={}, now oracle={} ({})", oracle, vi.oracle, vi.observed);
                2
            }
        }
    }
}


// ------------------------------------------------------- history-dependent failures

/// Run the given run indices, in order, in THIS thread of THIS process.
/// Returns the first violation reported, with the index it was reported at.
pub fn run_history(cfg: &Cfg, scenario: Scenario, indices: &[u64]) -> Option<(u64, Violation)> {
    let mut st = Stats::default();
    st.known_oracles = cfg.known_oracles.clone();
    for i in indices {
        st.begin_index(*i);
        scenario(cfg, *i, &mut st);
        st.end_index();
        if let Some(f) = st.found.first() {
            return Some((f.idx, f.violation.clone()));
        }
    }
    None
}

fn history_digest(oracle: &str, observed: &str, indices: &[u64]) -> String {
    let mut d = crate::rng::Digest::new();
    d.str(oracle);
    d.str(observed);
    for i in indices {
        d.u64(*i);
    }
    format!("{:016x}", d.finish())
}

/// `fstsim history <PROP> ...`: indices on stdin (whitespace separated).
/// exit 1 + "HISTORY-REPRODUCED" if the LAST index reports `oracle`.
pub fn history_child(cfg: &Cfg, scenario: Scenario, oracle: &str) -> i32 {
    let mut s = String::new();
    use std::io::Read;
    let _ = std::io::stdin().read_to_string(&mut s);
    let indices: Vec<u64> = s.split_whitespace().filter_map(|x| x.parse().ok()).collect();
    match run_history(cfg, scenario, &indices) {
        Some((idx, v)) if Some(&idx) == indices.last() && v.oracle == oracle => {
            println!("HISTORY-REPRODUCED {}", v.observed.replace('\n', " "));
            1
        }
        Some((idx, v)) => {
            println!("HISTORY-OTHER idx={} oracle={}", idx, v.oracle);
            0
        }
        None => 0,
    }
}

fn spawn_self(cfg: &Cfg, sub: &[&str], stdin_text: &str) -> (i32, String) {
    use std::io::{Read, Write};
    use std::process::{Command, Stdio};
    let exe = std::env::current_exe().unwrap_or_else(|e| harness_error(format!("current_exe: {}", e)));
    let mut cmd = Command::new(exe);
    cmd.args(sub);
    cmd.args(["--tier", cfg.tier.name(), "--seed", &cfg.seed.to_string(), "--scale", &cfg.scale.to_string(), "--workers", "1"]);
    let mut child = cmd
        .stdin(Stdio::piped())
        .stdout(Stdio::piped())
        .stderr(Stdio::null())
        .spawn()
        .unwrap_or_else(|e| harness_error(format!("spawn: {}", e)));
    let _ = child.stdin.take().unwrap().write_all(stdin_text.as_bytes());
    let mut out = String::new();
    let _ = child.stdout.take().unwrap().read_to_string(&mut out);
    let st = child.wait().unwrap_or_else(|e| harness_error(format!("wait: {}", e)));
    (st.code().unwrap_or(-1), out)
}

/// Does the reported case fail when it is the only thing a fresh process runs?
fn fails_alone(cfg: &Cfg, f: &Found) -> bool {
    let dir = format!("{}/replays", cfg.verif_dir);
    let _ = std::fs::create_dir_all(&dir);
    let path = format!("{}/.alone-{}-{}.json", dir, cfg.prop, std::process::id());
    let v = json!({"property": cfg.prop, "oracle": f.violation.oracle, "case": case_to(&f.case), "log_digest": ""});
    if std::fs::write(&path, serde_json::to_string(&v).unwrap()).is_err() {
        return true;
    }
    let (code, _) = spawn_self(cfg, &["replay", &path], "");
    let _ = std::fs::remove_file(&path);
    // the abnormal death of the child counts as failing alone (the in-process
    // path then reports it the usual way)
    code != 0
}

fn history_reproduces(cfg: &Cfg, oracle: &str, indices: &[u64]) -> Option<String> {
    let text: Vec<String> = indices.iter().map(|i| i.to_string()).collect();
    let (code, out) = spawn_self(cfg, &["history", &cfg.prop, "--oracle", oracle], &text.join(" "));
    if code == 1 {
        out.lines().find_map(|l| l.strip_prefix("HISTORY-REPRODUCED ").map(|s| s.to_string()))
    } else {
        None
    }
}

fn conclude_history(cfg: &Cfg, f: &Found) -> i32 {
    let oracle = &f.violation.oracle;
    let full = &f.history;
    if history_reproduces(cfg, oracle, full).is_none() {
        harness_error(format!(
            "violation at run {} ({}) reproduces neither alone nor after the {} runs its worker thread executed before it",
            f.idx,
            oracle,
            full.len().saturating_sub(1)
        ));
    }
    // smallest reproducing suffix (hidden state is usually set by a recent run)
    let mut trials = 1u64;
    let mut cur: Vec<u64> = full.clone();
    let mut k = 2usize;
    while k < full.len() {
        let cand = full[full.len() - k..].to_vec();
        trials += 1;
        if history_reproduces(cfg, oracle, &cand).is_some() {
            cur = cand;
            break;
        }
        k = k * 2;
    }
    // drop single runs from the front part while it still reproduces
    if cur.len() <= 64 {
        let mut i = 0;
        while i + 1 < cur.len() {
            let mut cand = cur.clone();
            cand.remove(i);
            trials += 1;
            if history_reproduces(cfg, oracle, &cand).is_some() {
                cur = cand;
            } else {
                i += 1;
            }
        }
    }
    let observed = history_reproduces(cfg, oracle, &cur).unwrap_or_else(|| f.violation.observed.clone());
    let dir = format!("{}/replays", cfg.verif_dir);
    let _ = std::fs::create_dir_all(&dir);
    let path = format!("{}/{}-{}-{}{}.json", dir, cfg.prop, cfg.seed, f.idx, profile_suffix());
    let v = json!({
        "property": cfg.prop,
        "oracle": oracle,
        "engine": "A",
        "build_profile": build_profile(),
        "kind": "history",
        "seed": cfg.seed,
        "tier": cfg.tier.name(),
        "scale": cfg.scale,
        "run": f.idx,
        "minimised": true,
        "minimiser_executions": trials,
        "run_indices_in_order": cur,
        "log_digest": history_digest(oracle, &observed, &cur),
        "observed": observed,
        "note": "the last run index fails only after the earlier ones ran in the same thread of the same process; alone, in a fresh process, the same case holds: the code under test keeps state from one use to the next",
        "case_that_failed": case_to(&f.case),
        "original_history_length": full.len(),
    });
    if let Err(e) = std::fs::write(&path, serde_json::to_string_pretty(&v).unwrap()) {
        harness_error(format!("cannot write replay {}: {}", path, e));
    }
    println!(
        "violation at run index {} (seed {}): oracle {} — only after earlier runs in the same thread (history of {} runs minimised to {})",
        f.idx,
        cfg.seed,
        oracle,
        full.len(),
        cur.len()
    );
    println!("  observed: {}", printable(&observed));
    println!("  replay with: ./check replay {}", path);
    println!("VIOLATION property={} replay={}", cfg.prop, path);
    1
}

/// Replay of a `kind: history` file (the caller supplies the scenario).
pub fn replay_history(cfg: &Cfg, scenario: Scenario, v: &Value, path: &str) -> i32 {
    let oracle = v["oracle"].as_str().unwrap_or("").to_string();
    let indices: Vec<u64> = v["run_indices_in_order"].as_array().map(|a| a.iter().filter_map(|x| x.as_u64()).collect()).unwrap_or_default();
    match run_history(cfg, scenario, &indices) {
        Some((idx, vi)) if Some(&idx) == indices.last() && vi.oracle == oracle => {
            let observed = vi.observed.replace('\n', " ");
            let d = history_digest(&oracle, &observed, &indices);
            if d == v["log_digest"].as_str().unwrap_or("") {
                println!("REPLAY reproduced exactly: oracle={} digest={}", oracle, d);
            } else {
                println!("REPLAY reproduced oracle={} but the observation differs from the file: the code under test changed since it was written", oracle);
            }
            println!("  observed: {}", printable(&observed));
            println!("VIOLATION property={} replay={}", cfg.prop, path);
            1
        }
        Some((idx, vi)) => {
            println!("REPLAY DIVERGED: file says oracle={} at the last index, now oracle={} at index {}", oracle, vi.oracle, idx);
            2
        }
        None => {
            println!("REPLAY property={} file={}: no violation (the history holds on this tree)", cfg.prop, path);
            0
        }
    }
}

// ----------------------------------------------------------------- evidence

pub struct EvidenceMeta {
    pub level: &'static str,
    pub rule: String,
    pub assumptions: Vec<String>,
    pub real: Vec<&'static str>,
    pub stubs: Vec<&'static str>,
    pub exhaustive: bool,
}

pub fn write_evidence(
    cfg: &Cfg,
    res: &mut BatchResult,
    meta: &EvidenceMeta,
    violations: u64,
    known_hits: &BTreeMap<String, u64>,
    extra: Value,
) {
    let dn = distinct(&mut res.stats.nontrivial) + res.stats.bulk.values().sum::<u64>();
    let evals = res.stats.evaluations;
    let mut faults = serde_json::Map::new();
    let mut probes = serde_json::Map::new();
    let mut other = serde_json::Map::new();
    for (k, n) in &res.stats.counters {
        if k.starts_with("sink.") || k.starts_with("corrupt.") || k.starts_with("sched.") {
            faults.insert(k.to_string(), json!(n));
        } else if k.starts_with("probe.") {
            probes.insert(k.to_string(), json!(n));
        } else {
            other.insert(k.to_string(), json!(n));
        }
    }
    let mut cov = json!({
        "evaluations": evals,
        "distinct_nontrivial": dn,
        "rule": meta.rule,
        "samples": res.stats.samples.iter().map(|s| s.1.clone()).collect::<Vec<_>>(),
        "exhaustive": meta.exhaustive,
        "run_indices": res.indices_done,
        "simulated_runs_per_hour": if res.wall_s > 0.0 { (evals as f64 / res.wall_s * 3600.0) as u64 } else { 0 },
        "logical_steps_simulated": res.stats.steps,
        "simulated_time_note": "fst has no clock or timer; simulated time is the logical step count (public calls + sink events + scheduling steps)",
        "fault_kinds_fired": Value::Object(faults),
        "probes_hit": Value::Object(probes),
        "other_counters": Value::Object(other),
        "exhaustive_sub_scopes": res.stats.exhaustive_scopes,
        "components_real": meta.real,
        "components_stub": meta.stubs,
        "workers": cfg.workers,
        "known_findings_hit": known_hits,
    });
    if let (Value::Object(c), Value::Object(e)) = (&mut cov, extra) {
        for (k, v) in e {
            c.insert(k, v);
        }
    }
    if !res.stats.details.is_empty() {
        cov["measurements"] = Value::Array(res.stats.details.iter().map(|d| d.1.clone()).collect());
    }
    for (k, v) in &res.stats.notes {
        cov[k] = v.clone();
    }
    let ev = json!({
        "property_id": cfg.prop,
        "tier": cfg.tier.name(),
        "seed": cfg.seed,
        "level": meta.level,
        "coverage": cov,
        "assumptions": meta.assumptions,
        "wall_s": (res.wall_s * 1000.0).round() / 1000.0,
        "violations": violations,
    });
    let dir = format!("{}/evidence", cfg.verif_dir);
    let _ = std::fs::create_dir_all(&dir);
    let name = std::env::var("VERIF_EVIDENCE_NAME").unwrap_or_else(|_| cfg.prop.clone());
    let path = format!("{}/{}.json", dir, name);
    if let Err(e) = std::fs::write(&path, serde_json::to_string_pretty(&ev).unwrap()) {
        harness_error(format!("cannot write evidence {}: {}", path, e));
    }
}

/// Handle the outcome of a batch: minimise + replay file + verdict lines.
/// Returns the process exit code.
pub fn conclude(cfg: &Cfg, res: &mut BatchResult, meta: &EvidenceMeta, extra: Value, scenario: Scenario) -> i32 {
    let known = load_known(&cfg.verif_dir);
    let mut known_hits: BTreeMap<String, u64> = BTreeMap::new();
    for (o, n) in &res.stats.known_hits {
        if let Some(line) = known.matches(&cfg.prop, o) {
            *known_hits.entry(line.to_string()).or_insert(0) += n;
        }
    }
    let fresh: Option<usize> = if res.stats.found.is_empty() { None } else { Some(0) };
    for (line, n) in &known_hits {
        println!("KNOWN-FINDING: {} (hit {} times)", line, n);
    }
    let code = match fresh {
        None => 0,
        Some(i) => {
            let f = &res.stats.found[i];
            // does the case fail on its own (in a fresh process)? If it only
            // fails after what this worker thread ran before it, the code
            // under test carries hidden state from one use to the next: the
            // replay is then the (minimised) sequence of run indices.
            if !fails_alone(cfg, f) {
                let code = conclude_history(cfg, f);
                write_evidence(cfg, res, meta, 1, &known_hits, extra);
                let _ = scenario;
                return code;
            }
            let mut m = Minimiser::new(&cfg.prop, &f.violation.oracle, 4000);
            let minimised = m.minimise(&f.case);
            let o = exec(&cfg.prop, &minimised);
            let (mc, mv, md) = match o.violation {
                Some(v) if v.oracle == f.violation.oracle => (minimised, v, o.digest),
                _ => {
                    // minimiser lost the failure: fall back to the original
                    let o2 = exec(&cfg.prop, &f.case);
                    match o2.violation {
                        Some(v) => (f.case.clone(), v, o2.digest),
                        None => harness_error(format!(
                            "violation at run {} does not reproduce in-process: nondeterminism in the harness",
                            f.idx
                        )),
                    }
                }
            };
            let path = write_replay(cfg, f, &mc, &mv, md, m.execs);
            println!(
                "violation at run index {} (seed {}): oracle {}",
                f.idx, cfg.seed, mv.oracle
            );
            println!("  observed: {}", printable(&mv.observed));
            println!("  minimised with {} executions; replay with: ./check replay {}", m.execs, path);
            println!("VIOLATION property={} replay={}", cfg.prop, path);
            1
        }
    };
    let nviol = if code == 0 { 0 } else { 1 };
    write_evidence(cfg, res, meta, nviol, &known_hits, extra);
    if code == 0 {
        println!(
            "{} {}: held on {} simulated runs ({} run indices, {} distinct non-trivial) in {:.1}s",
            cfg.prop,
            cfg.tier.name(),
            res.stats.evaluations,
            res.indices_done,
            res.stats.nontrivial.len(),
            res.wall_s
        );
    }
    code
}
