//! One simulated world with a single builder task writing to a simulated
//! file: the unit most scenarios are made of.

use std::cell::RefCell;
use std::panic::{catch_unwind, AssertUnwindSafe};
use std::rc::Rc;

use crate::front::{Fin, Item, Op, Res, Task, TaskSpec};
use crate::model::{Contract, Expect};
use crate::rng::{Digest, Rng};
use crate::sink::{
    Decider, Plan, Shape, SinkHandle, SinkState, Tap, TapState,
};

#[derive(Clone, Debug, PartialEq, Eq)]
pub struct BuildCase {
    pub task: TaskSpec,
    /// capacity of a real `BufWriter` between builder and file
    pub bufcap: Option<usize>,
    pub prefill: Vec<u8>,
    pub plan: Plan,
    /// Some = decisions beyond `plan.writes` come from this PRNG stream
    pub random: Option<(Shape, u64)>,
}

impl BuildCase {
    pub fn clean(task: TaskSpec) -> BuildCase {
        BuildCase {
            task,
            bufcap: None,
            prefill: vec![],
            plan: Plan::clean(),
            random: None,
        }
    }
}

pub struct BuildRun {
    /// results[0] = constructor, then ops, then finish (if reached)
    pub results: Vec<Res>,
    pub pulled: Vec<Option<usize>>,
    /// after each call: bytes_written() if the builder still exists
    pub bw_after: Vec<Option<u64>>,
    /// after each call: bytes / write calls the builder's writer reported
    pub tap_after: Vec<u64>,
    pub tap_calls_after: Vec<u64>,
    /// after each call: number of sink events so far
    pub sink_ev_after: Vec<u64>,
    pub sink: SinkState,
    pub tap: TapState,
    /// number of sink events when the last public call returned (events after
    /// that come from dropping the writer stack)
    pub ev_at_return: u64,
    /// durable length when the last public call returned (what the file held
    /// before the writer stack was dropped)
    pub durable_at_return: usize,
    pub finish_reached: bool,
}

impl BuildRun {
    pub fn finish_result(&self) -> Option<&Res> {
        if self.finish_reached {
            self.results.last()
        } else {
            None
        }
    }
    pub fn digest(&self) -> u64 {
        let mut d = Digest::new();
        for r in &self.results {
            d.u64(r.code());
        }
        for b in &self.bw_after {
            d.u64(b.map(|x| x + 1).unwrap_or(0));
        }
        for p in &self.pulled {
            d.u64(p.map(|x| x as u64 + 1).unwrap_or(0));
        }
        self.sink.digest_into(&mut d);
        d.finish()
    }
}

/// A single-builder world that can be advanced one public call at a time.
pub struct BuildWorld {
    sink: SinkHandle,
    tap_st: Rc<RefCell<TapState>>,
    task: Task<Tap>,
    bw_after: Vec<Option<u64>>,
    tap_after: Vec<u64>,
    tap_calls_after: Vec<u64>,
    sink_ev_after: Vec<u64>,
    finish_reached: bool,
}

impl BuildWorld {
    pub fn new(case: &BuildCase) -> BuildWorld {
        let decider = match case.random {
            None => Decider::Explicit,
            Some((shape, seed)) => {
                Decider::Random { shape, rng: Rng::new(seed) }
            }
        };
        let sink =
            SinkState::new(case.plan.clone(), decider, &case.prefill).handle();
        let (tap, tap_st) = Tap::new(sink.clone(), case.bufcap);
        sink.borrow_mut().cur_op = 0;
        let task = Task::start(tap, case.task.clone());
        let mut w = BuildWorld {
            sink,
            tap_st,
            task,
            bw_after: Vec::new(),
            tap_after: Vec::new(),
            tap_calls_after: Vec::new(),
            sink_ev_after: Vec::new(),
            finish_reached: false,
        };
        w.snapshot();
        w
    }

    fn snapshot(&mut self) {
        self.bw_after.push(self.task.bytes_written());
        let t = self.tap_st.borrow();
        self.tap_after.push(t.accepted);
        // write calls only: a flush writes nothing (a builder that flushes
        // its writer now and then may do so at the start of any call)
        self.tap_calls_after.push(t.write_calls);
        self.sink_ev_after.push(self.sink.borrow().ev_idx);
    }

    pub fn done(&self) -> bool {
        self.task.done
    }

    pub fn set_discard(&self) {
        let mut s = self.sink.borrow_mut();
        s.discard = true;
        s.keep_log = false;
    }

    /// One public call; false when nothing was left to do.
    pub fn step(&mut self) -> bool {
        let idx = self.task.next_call_index() as u32;
        self.sink.borrow_mut().cur_op = idx;
        let was_finish = self.task.is_finish_next();
        if self.task.step().is_none() {
            return false;
        }
        if was_finish {
            self.finish_reached = true;
        }
        self.snapshot();
        true
    }

    pub fn finish(self) -> BuildRun {
        let BuildWorld {
            sink,
            tap_st,
            task,
            bw_after,
            tap_after,
            tap_calls_after,
            sink_ev_after,
            finish_reached,
        } = self;
        let ev_at_return = sink.borrow().ev_idx;
        let durable_at_return = sink.borrow().durable.len();
        sink.borrow_mut().cur_op = u32::MAX;
        let results = task.results.clone();
        let pulled = task.pulled.clone();
        // dropping the writer stack may flush a BufWriter
        let _ = catch_unwind(AssertUnwindSafe(move || drop(task)));
        let tap = tap_st.borrow().clone();
        let sink = match Rc::try_unwrap(sink) {
            Ok(c) => c.into_inner(),
            Err(_) => panic!("harness: sink handle still shared"),
        };
        BuildRun {
            results,
            pulled,
            bw_after,
            tap_after,
            tap_calls_after,
            sink_ev_after,
            sink,
            tap,
            ev_at_return,
            durable_at_return,
            finish_reached,
        }
    }
}

pub fn run_build(case: &BuildCase) -> BuildRun {
    let mut w = BuildWorld::new(case);
    while w.step() {}
    w.finish()
}

/// The same task built into a `Vec<u8>` (the "in-memory build" every
/// property compares with). Returns call results and the bytes if finished.
pub fn reference_build(spec: &TaskSpec) -> (Vec<Res>, Option<Vec<u8>>) {
    let mut spec = spec.clone();
    spec.fin = Fin::IntoInner;
    let mut task: Task<Vec<u8>> = Task::start(Vec::new(), spec);
    while task.step().is_some() {}
    (task.results.clone(), task.out.take())
}

/// What the ordering contract expects of each op, and the accepted list.
pub struct Expected {
    pub results: Vec<Expect>,
    pub pulled: Vec<Option<usize>>,
    pub accepted: Vec<Item>,
}

pub fn expected_history(spec: &TaskSpec) -> Expected {
    use crate::front::Front;
    let mut m = Contract::new();
    let mut results = Vec::new();
    let mut pulled = Vec::new();
    let one = |m: &mut Contract, k: &[u8], v: u64, add: bool| -> Expect {
        match (spec.front, add) {
            (Front::Set, _) => m.add(k),
            (Front::Raw, true) => m.add(k),
            (Front::Raw, false) => m.insert(k, v),
            (Front::Map, true) => m.insert(k, 0),
            (Front::Map, false) => m.insert(k, v),
        }
    };
    for op in &spec.ops {
        match op {
            Op::Ins(k, v) => {
                results.push(one(&mut m, k, *v, false));
                pulled.push(None);
            }
            Op::Add(k) => {
                results.push(one(&mut m, k, 0, true));
                pulled.push(None);
            }
            Op::ExtIter(items) | Op::ExtStream(items, _) => {
                let mut r = Expect::Ok;
                let mut n = 0;
                for (k, v) in items {
                    n += 1;
                    if &k[..] == crate::front::PANIC_KEY {
                        r = Expect::CallerPanic;
                        break;
                    }
                    let e = one(&mut m, k, *v, false);
                    if e != Expect::Ok {
                        r = e;
                        break;
                    }
                }
                results.push(r);
                pulled.push(Some(n));
            }
        }
    }
    // a set stores no values
    let accepted = m
        .accepted
        .into_iter()
        .map(|(k, v)| if spec.front == Front::Set { (k, 0) } else { (k, v) })
        .collect();
    Expected { results, pulled, accepted }
}

pub fn expect_matches(e: &Expect, r: &Res) -> bool {
    match (e, r) {
        (Expect::Ok, Res::Ok) => true,
        (Expect::CallerPanic, Res::Panic(m)) => m.contains(crate::front::CALLER_PANIC),
        (Expect::Dup { got }, Res::Dup(g)) => got == g,
        (Expect::Ooo { prev, got }, Res::Ooo(p, g)) => prev == p && got == g,
        _ => false,
    }
}

pub fn show_expect(e: &Expect) -> String {
    use crate::front::hex;
    match e {
        Expect::Ok => "Ok".into(),
        Expect::CallerPanic => "the caller's own panic (unwinding out of the call)".into(),
        Expect::Dup { got } => format!("Err(DuplicateKey{{got:{}}})", hex(got)),
        Expect::Ooo { prev, got } => format!(
            "Err(OutOfOrder{{previous:{},got:{}}})",
            hex(prev),
            hex(got)
        ),
    }
}

/// Everything the real reader says about some bytes, under catch_unwind.
#[derive(Debug, Clone, PartialEq, Eq)]
pub struct ReadBack {
    pub items: Vec<Item>,
    pub len: usize,
    pub is_empty: bool,
    pub verify_ok: bool,
    pub verify_msg: String,
}

pub fn read_back(bytes: &[u8]) -> Result<ReadBack, String> {
    use fst::{IntoStreamer, Streamer};
    let r = catch_unwind(AssertUnwindSafe(|| -> Result<ReadBack, String> {
        let f = fst::raw::Fst::new(bytes).map_err(|e| format!("open: {:?}", e))?;
        // Readers that are dropped half-way first (a stream after two items,
        // a lower-bounded range after one, an early-exit set relation): what
        // a later, complete enumeration yields must not depend on them.
        {
            let mut s0 = f.stream();
            let _ = s0.next();
            let _ = s0.next();
            drop(s0);
            let mut r0 = f.range().ge(b"a").into_stream();
            let _ = r0.next();
            drop(r0);
            if let Ok(set) = fst::Set::new(bytes) {
                let _ = set.is_disjoint(&set);
                let _ = set.is_subset(&set);
            }
        }
        let mut items = Vec::new();
        let mut s = f.stream();
        while let Some((k, v)) = s.next() {
            items.push((k.to_vec(), v.value()));
        }
        let v = f.verify();
        Ok(ReadBack {
            items,
            len: f.len(),
            is_empty: f.is_empty(),
            verify_ok: v.is_ok(),
            verify_msg: match v {
                Ok(()) => String::new(),
                Err(e) => format!("{:?}", e),
            },
        })
    }));
    match r {
        Ok(x) => x,
        Err(p) => Err(format!("PANIC: {}", crate::front::panic_msg(p))),
    }
}
