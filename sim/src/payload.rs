//! C08-A(ii): arbitrary payloads through the REAL counting/checksumming
//! writer (hook `raw::verif_counting_write_all`) into a scheduled sink, so
//! the sink's acceptance schedule *is* the chunking the checksummer sees.

use std::io::{self, Write};
use std::panic::{catch_unwind, AssertUnwindSafe};
use std::rc::Rc;

use crate::model::masked_crc32c;
use crate::oracle::Violation;
use crate::rng::{Digest, Rng};
use crate::sink::{Decider, Fired, Plan, Shape, SimSink, SinkState};

#[derive(Clone, Debug, PartialEq, Eq)]
pub struct PayloadCase {
    pub payload: Vec<u8>,
    /// caller-side chunking of the write_all calls
    pub chunk_lens: Vec<usize>,
    pub bufcap: Option<usize>,
    pub plan: Plan,
    pub random: Option<(Shape, u64)>,
}

pub struct PayloadRun {
    pub result: Result<(u64, u32), String>,
    pub durable: Vec<u8>,
    pub plan: Plan,
    pub fired: Fired,
    pub digest: u64,
    /// some accepted chunk was >= 16 bytes (fast path ran on a partial write)
    pub big_chunks: u64,
}

pub fn run_payload(case: &PayloadCase) -> PayloadRun {
    let decider = match case.random {
        None => Decider::Explicit,
        Some((shape, seed)) => Decider::Random { shape, rng: Rng::new(seed) },
    };
    let sink = SinkState::new(case.plan.clone(), decider, &[]).handle();
    let payload = &case.payload;
    let chunks = &case.chunk_lens;
    let r = catch_unwind(AssertUnwindSafe(|| -> io::Result<(u64, u32)> {
        match case.bufcap {
            None => fst::raw::verif_counting_write_all(
                SimSink(sink.clone()),
                payload,
                chunks,
            ),
            Some(c) => {
                let mut bw = io::BufWriter::with_capacity(c, SimSink(sink.clone()));
                let r = fst::raw::verif_counting_write_all(&mut bw, payload, chunks);
                bw.flush()?;
                r
            }
        }
    }));
    let result = match r {
        Err(p) => Err(format!("PANIC: {}", crate::front::panic_msg(p))),
        Ok(Err(e)) => Err(format!("io error: {:?}", e.kind())),
        Ok(Ok(x)) => Ok(x),
    };
    let st = match Rc::try_unwrap(sink) {
        Ok(c) => c.into_inner(),
        Err(_) => panic!("harness: sink handle still shared"),
    };
    let mut d = Digest::new();
    st.digest_into(&mut d);
    if let Ok((c, s)) = &result {
        d.u64(*c);
        d.u64(*s as u64);
    }
    let big_chunks =
        st.log.iter().filter(|e| e.outcome >= 16 && (e.outcome as usize) < e.req).count() as u64;
    PayloadRun {
        result,
        plan: st.recorded_plan(),
        fired: st.fired.clone(),
        durable: st.durable,
        digest: d.finish(),
        big_chunks,
    }
}

pub fn check_payload(case: &PayloadCase, run: &PayloadRun) -> Option<Violation> {
    let v = |o: &str, s: String| {
        Some(Violation { oracle: o.to_string(), observed: s })
    };
    let (count, sum) = match &run.result {
        Err(e) => return v("C08.A2.write_failed_under_benign_sink", e.clone()),
        Ok(x) => *x,
    };
    if run.durable != case.payload {
        return v(
            "C08.A2.sink_bytes_differ_from_payload",
            format!("{} bytes stored for a {}-byte payload", run.durable.len(), case.payload.len()),
        );
    }
    if count != case.payload.len() as u64 {
        return v(
            "C08.A2.count_wrong",
            format!("count {} for {} bytes", count, case.payload.len()),
        );
    }
    let want = masked_crc32c(&case.payload);
    if sum != want {
        return v(
            "C08.A2.checksum_depends_on_chunking",
            format!(
                "masked sum {:08x}, reference masked CRC-32C {:08x} ({} bytes)",
                sum,
                want,
                case.payload.len()
            ),
        );
    }
    None
}
