//! The simulated file: an `io::Write` whose every call outcome is decided by
//! an explicit plan or by the run's PRNG, and which records everything.

use std::cell::RefCell;
use std::io::{self, Write};
use std::rc::Rc;

use crate::rng::{Digest, Rng};

/// Failure kinds the simulator can inject. `WriteZero` is what `write_all`
/// and `BufWriter` turn an `Ok(0)` into; it is only ever *expected*, never
/// injected as an `Err`.
#[derive(Clone, Copy, Debug, PartialEq, Eq, Hash, PartialOrd, Ord)]
pub enum ErrKind {
    Other,
    BrokenPipe,
    PermissionDenied,
    StorageFull,
    WouldBlock,
    TimedOut,
    UnexpectedEof,
    InvalidData,
    WriteZero,
    Crash,
    /// only injected on flush calls (on a write it is a retry request)
    Interrupted,
    /// not an error return at all: the caller's writer PANICS inside this
    /// call (the builder call unwinds; the caller catches it). Only used for
    /// disturber tasks: what other builders emit must not depend on it.
    Panic,
}

pub const INJECTABLE: [ErrKind; 8] = [
    ErrKind::Other,
    ErrKind::BrokenPipe,
    ErrKind::PermissionDenied,
    ErrKind::StorageFull,
    ErrKind::WouldBlock,
    ErrKind::TimedOut,
    ErrKind::UnexpectedEof,
    ErrKind::InvalidData,
];

impl ErrKind {
    pub fn name(self) -> &'static str {
        match self {
            ErrKind::Other => "Other",
            ErrKind::BrokenPipe => "BrokenPipe",
            ErrKind::PermissionDenied => "PermissionDenied",
            ErrKind::StorageFull => "StorageFull",
            ErrKind::WouldBlock => "WouldBlock",
            ErrKind::TimedOut => "TimedOut",
            ErrKind::UnexpectedEof => "UnexpectedEof",
            ErrKind::InvalidData => "InvalidData",
            ErrKind::WriteZero => "WriteZero",
            ErrKind::Crash => "Crash",
            ErrKind::Interrupted => "Interrupted",
            ErrKind::Panic => "PanicsInsideTheCall",
        }
    }
    pub fn from_name(s: &str) -> Option<ErrKind> {
        Some(match s {
            "Other" => ErrKind::Other,
            "BrokenPipe" => ErrKind::BrokenPipe,
            "PermissionDenied" => ErrKind::PermissionDenied,
            "StorageFull" => ErrKind::StorageFull,
            "WouldBlock" => ErrKind::WouldBlock,
            "TimedOut" => ErrKind::TimedOut,
            "UnexpectedEof" => ErrKind::UnexpectedEof,
            "InvalidData" => ErrKind::InvalidData,
            "WriteZero" => ErrKind::WriteZero,
            "Crash" => ErrKind::Crash,
            "Interrupted" => ErrKind::Interrupted,
            "PanicsInsideTheCall" => ErrKind::Panic,
            _ => return None,
        })
    }
    pub fn io_kind(self) -> io::ErrorKind {
        match self {
            ErrKind::Other => io::ErrorKind::Other,
            ErrKind::BrokenPipe => io::ErrorKind::BrokenPipe,
            ErrKind::PermissionDenied => io::ErrorKind::PermissionDenied,
            ErrKind::StorageFull => io::ErrorKind::StorageFull,
            ErrKind::WouldBlock => io::ErrorKind::WouldBlock,
            ErrKind::TimedOut => io::ErrorKind::TimedOut,
            ErrKind::UnexpectedEof => io::ErrorKind::UnexpectedEof,
            ErrKind::InvalidData => io::ErrorKind::InvalidData,
            ErrKind::WriteZero => io::ErrorKind::WriteZero,
            // a crashed process observes nothing; the simulated caller sees
            // an error of a kind nothing else produces
            ErrKind::Crash => io::ErrorKind::ConnectionAborted,
            ErrKind::Interrupted => io::ErrorKind::Interrupted,
            ErrKind::Panic => io::ErrorKind::Other,
        }
    }
    pub fn of_io(k: io::ErrorKind) -> Option<ErrKind> {
        Some(match k {
            io::ErrorKind::Other => ErrKind::Other,
            io::ErrorKind::BrokenPipe => ErrKind::BrokenPipe,
            io::ErrorKind::PermissionDenied => ErrKind::PermissionDenied,
            io::ErrorKind::StorageFull => ErrKind::StorageFull,
            io::ErrorKind::WouldBlock => ErrKind::WouldBlock,
            io::ErrorKind::TimedOut => ErrKind::TimedOut,
            io::ErrorKind::UnexpectedEof => ErrKind::UnexpectedEof,
            io::ErrorKind::InvalidData => ErrKind::InvalidData,
            io::ErrorKind::WriteZero => ErrKind::WriteZero,
            io::ErrorKind::ConnectionAborted => ErrKind::Crash,
            io::ErrorKind::Interrupted => ErrKind::Interrupted,
            _ => return None,
        })
    }
}

/// Outcome of one `write` call on the simulated file.
#[derive(Clone, Copy, Debug, PartialEq, Eq)]
pub enum WStep {
    /// Accept the whole buffer.
    Full,
    /// Accept `min(n, len)` bytes, at least one.
    Accept(usize),
    /// Return `ErrorKind::Interrupted` (a request to retry).
    Intr,
    /// Return a hard error.
    Err(ErrKind),
    /// Return `Ok(0)` for a non-empty buffer.
    Zero,
}

/// Outcome of one `flush` call.
#[derive(Clone, Copy, Debug, PartialEq, Eq)]
pub enum FStep {
    Ok,
    Err(ErrKind),
}

/// How random acceptance schedules are shaped (swarm style: one per run).
#[derive(Clone, Copy, Debug, PartialEq, Eq)]
pub enum Shape {
    /// Always accept everything (the behaviour of `Vec<u8>`).
    Full,
    /// Accept at most `n` bytes per call.
    Cap(usize),
    /// Random lengths biased to 1, len-1, len and the CRC fast-path boundary;
    /// `intr` of 16 calls return Interrupted (bursts bounded).
    Random { short_16: u8, intr_16: u8 },
    /// Mostly full, with storms of Interrupted.
    Storm,
}

#[derive(Clone, Debug, PartialEq, Eq)]
pub enum Rest {
    Full,
    Cap(usize),
}

#[derive(Clone, Copy, Debug, PartialEq, Eq)]
pub struct Flip {
    /// Applied right after sink event with this index completed.
    pub after_event: u64,
    /// Position in the durable bytes, taken modulo the durable length.
    pub pos: usize,
    pub xor: u8,
}

/// How the simulated file builds the `io::Error` values it returns. The
/// kind is the same in every representation; what differs is what a caller
/// that looks *inside* the error would see.
#[derive(Clone, Copy, Debug, PartialEq, Eq)]
pub enum ErrRepr {
    /// `io::Error::new(kind, "text")`: a custom error with a string payload
    Message,
    /// `io::Error::from(kind)`: no payload at all
    Simple,
    /// `io::Error::from_raw_os_error(errno)` where an errno with that kind
    /// exists (EINTR, ENOSPC, EPIPE, EACCES, EAGAIN, ETIMEDOUT), else Simple
    OsCode,
    /// a custom error whose payload is itself an `fst::Error` (a sink built
    /// on top of this very library)
    FstPayload,
}

pub const ERR_REPRS: [ErrRepr; 4] = [ErrRepr::Message, ErrRepr::Simple, ErrRepr::OsCode, ErrRepr::FstPayload];

impl ErrRepr {
    pub fn name(self) -> &'static str {
        match self {
            ErrRepr::Message => "message",
            ErrRepr::Simple => "simple_kind",
            ErrRepr::OsCode => "os_code",
            ErrRepr::FstPayload => "fst_error_payload",
        }
    }
    pub fn from_name(n: &str) -> Option<ErrRepr> {
        ERR_REPRS.iter().copied().find(|r| r.name() == n)
    }
    pub fn make(self, kind: io::ErrorKind, msg: &'static str) -> io::Error {
        match self {
            ErrRepr::Message => io::Error::new(kind, msg),
            ErrRepr::Simple => io::Error::from(kind),
            ErrRepr::OsCode => {
                let code = match kind {
                    io::ErrorKind::Interrupted => 4,
                    io::ErrorKind::StorageFull => 28,
                    io::ErrorKind::BrokenPipe => 32,
                    io::ErrorKind::PermissionDenied => 13,
                    io::ErrorKind::WouldBlock => 11,
                    io::ErrorKind::TimedOut => 110,
                    _ => 0,
                };
                if code != 0 {
                    let e = io::Error::from_raw_os_error(code);
                    if e.kind() == kind {
                        return e;
                    }
                }
                io::Error::from(kind)
            }
            ErrRepr::FstPayload => {
                // an error of the library's own type, obtained the public way
                let inner: fst::Error = match fst::raw::Fst::new(Vec::<u8>::new()) {
                    Err(e) => e,
                    Ok(_) => return io::Error::new(kind, msg),
                };
                io::Error::new(kind, inner)
            }
        }
    }
}

/// The explicit, replayable description of sink behaviour.
#[derive(Clone, Debug, PartialEq, Eq)]
pub struct Plan {
    pub writes: Vec<WStep>,
    pub rest: Rest,
    pub flushes: Vec<FStep>,
    /// From this sink event on, every call fails with the kind.
    pub sticky: Option<(u64, ErrKind)>,
    /// The simulated process dies during this sink event: a write stores
    /// `torn` bytes (clamped to the buffer) and fails; every later call fails.
    pub crash: Option<(u64, usize)>,
    pub flips: Vec<Flip>,
    /// One injected fault that overrides the step of write call `index`
    /// (kept separate from `writes` so that the fault-free twin of a case is
    /// the same plan for every fault position).
    pub fault_write: Option<(usize, WStep)>,
    /// The same for flush call `index`.
    pub fault_flush: Option<(usize, ErrKind)>,
    /// `Ok(0)` once, at the first write call with index >= .0 whose buffer
    /// has between .1 and .2 bytes (aims at writes of one kind, e.g. packed
    /// integers of 3..7 bytes far into a large build). Internal to scenarios
    /// that build their plan from other parameters; not part of case files.
    pub fault_write_sized: Option<(usize, usize, usize)>,
    /// The file implements `write_vectored` natively: one call may accept
    /// bytes across several of the caller's buffers (and stop anywhere).
    pub vectored: bool,
    /// representation of every error this file returns (Interrupted included)
    pub err_repr: ErrRepr,
    /// > 0: the writer is RE-ENTRANT — inside every n-th write call it builds
    /// another small FST with the library (in memory) before it answers, and
    /// checks those bytes against the same build done outside any callback
    pub reenter_every: usize,
}

/// Message of the panic a writer raises for `ErrKind::Panic`.
pub const SINK_PANIC: &str = "sim: the caller's writer panics inside write()";

fn small_build() -> Result<Vec<u8>, String> {
    let mut b = fst::MapBuilder::memory();
    for (k, v) in [(&b"a"[..], 1u64), (b"ab", 70_000), (b"abc", 3), (b"b", 1 << 40), (b"bb", 0)] {
        b.insert(k, v).map_err(|e| format!("{:?}", e))?;
    }
    b.into_inner().map_err(|e| format!("{:?}", e))
}

impl Plan {
    pub fn clean() -> Plan {
        Plan {
            writes: vec![],
            rest: Rest::Full,
            flushes: vec![],
            sticky: None,
            crash: None,
            flips: vec![],
            fault_write: None,
            fault_flush: None,
            fault_write_sized: None,
            vectored: false,
            err_repr: ErrRepr::Message,
            reenter_every: 0,
        }
    }
    pub fn is_clean(&self) -> bool {
        Plan { err_repr: ErrRepr::Message, reenter_every: 0, ..self.clone() } == Plan::clean()
    }
}

/// What decides the calls beyond / instead of the explicit plan.
#[derive(Clone, Debug)]
pub enum Decider {
    Explicit,
    Random { shape: Shape, rng: Rng },
}

#[derive(Clone, Copy, Debug, PartialEq, Eq)]
pub enum EvKind {
    Write,
    Flush,
}

#[derive(Clone, Copy, Debug)]
pub struct SinkEv {
    pub op: u32,
    pub kind: EvKind,
    pub req: usize,
    /// >= 0 accepted bytes / flush ok (0); -1 Interrupted; -2 hard error;
    /// -3 Ok(0); -4 crash.
    pub outcome: i64,
    pub durable_after: usize,
}

#[derive(Clone, Debug, Default)]
pub struct Fired {
    pub short: u64,
    pub full: u64,
    pub intr: u64,
    pub err: u64,
    pub zero: u64,
    pub flush_err: u64,
    pub flush_ok: u64,
    pub crash: u64,
    pub flip: u64,
    /// a short write split a buffer of >= 256 bytes (the transition index)
    pub split_big: u64,
}

pub struct SinkState {
    pub durable: Vec<u8>,
    pub prefill: usize,
    pub plan: Plan,
    pub decider: Decider,
    pub w_idx: usize,
    pub f_idx: usize,
    pub ev_idx: u64,
    pub crashed: bool,
    pub log: Vec<SinkEv>,
    pub keep_log: bool,
    /// do not store bytes (memory scenarios)
    pub discard: bool,
    pub total_accepted: u64,
    pub cur_op: u32,
    pub fired: Fired,
    intr_run: u32,
    /// the decisions actually taken, so a random run can be made explicit
    pub record: bool,
    pub rec_writes: Vec<WStep>,
    pub rec_flushes: Vec<FStep>,
    sized_fired: bool,
    pub first_fault_event: Option<u64>,
    pub first_fault_kind: Option<ErrKind>,
    pub first_fault_op: Option<u32>,
    /// reference bytes of the small build a re-entrant writer repeats
    pub reenter_ref: Option<Vec<u8>>,
    pub reentered: u64,
    /// a build started inside a write callback gave other bytes / failed
    pub reentrant_bad: Option<String>,
}

pub type SinkHandle = Rc<RefCell<SinkState>>;

impl SinkState {
    pub fn new(plan: Plan, decider: Decider, prefill: &[u8]) -> SinkState {
        SinkState {
            durable: prefill.to_vec(),
            prefill: prefill.len(),
            plan,
            decider,
            w_idx: 0,
            f_idx: 0,
            ev_idx: 0,
            crashed: false,
            log: Vec::new(),
            keep_log: true,
            discard: false,
            total_accepted: 0,
            cur_op: 0,
            fired: Fired::default(),
            intr_run: 0,
            record: true,
            rec_writes: Vec::new(),
            rec_flushes: Vec::new(),
            sized_fired: false,
            first_fault_event: None,
            first_fault_kind: None,
            first_fault_op: None,
            reenter_ref: None,
            reentered: 0,
            reentrant_bad: None,
        }
        .with_reenter_ref()
    }

    fn with_reenter_ref(mut self) -> SinkState {
        if self.plan.reenter_every > 0 {
            self.reenter_ref = small_build().ok();
        }
        self
    }

    fn reenter(&mut self) {
        self.reentered += 1;
        let got = small_build();
        if self.reentrant_bad.is_none() {
            match (&got, &self.reenter_ref) {
                (Ok(b), Some(r)) if b == r => {}
                (Ok(b), Some(r)) => {
                    self.reentrant_bad = Some(format!(
                        "a small map built inside write() call {} has {} bytes that differ from the {} bytes of the same build outside any callback",
                        self.w_idx,
                        b.len(),
                        r.len()
                    ))
                }
                (Err(e), _) => self.reentrant_bad = Some(format!("a small map built inside write() call {} failed: {}", self.w_idx, e)),
                (Ok(_), None) => {}
            }
        }
    }

    pub fn handle(self) -> SinkHandle {
        Rc::new(RefCell::new(self))
    }

    /// Bytes written by the builder (without the prefill).
    pub fn payload(&self) -> &[u8] {
        &self.durable[self.prefill..]
    }

    /// The explicit plan equivalent to what this run actually did.
    pub fn recorded_plan(&self) -> Plan {
        Plan {
            writes: self.rec_writes.clone(),
            rest: match self.decider {
                Decider::Explicit => self.plan.rest.clone(),
                Decider::Random { .. } => Rest::Full,
            },
            flushes: self.rec_flushes.clone(),
            sticky: self.plan.sticky,
            crash: self.plan.crash,
            flips: self.plan.flips.clone(),
            fault_write: self.plan.fault_write,
            fault_flush: self.plan.fault_flush,
            fault_write_sized: self.plan.fault_write_sized,
            vectored: self.plan.vectored,
            err_repr: self.plan.err_repr,
            reenter_every: self.plan.reenter_every,
        }
    }

    pub fn digest_into(&self, d: &mut Digest) {
        d.u64(self.log.len() as u64);
        for ev in &self.log {
            d.u64(ev.op as u64);
            d.u8(ev.kind as u8);
            d.u64(ev.req as u64);
            d.u64(ev.outcome as u64);
            d.u64(ev.durable_after as u64);
        }
        d.bytes(&self.durable);
    }

    #[inline]
    fn rec_w(&mut self, s: WStep) {
        if self.record {
            self.rec_writes.push(s);
        }
    }

    /// Record a failing step, unless it came from `fault_write` (which stays
    /// a separate field of the recorded plan): then record a plain accept.
    fn rec_fault_or(&mut self, s: WStep) {
        let injected = matches!(self.plan.fault_write, Some((at, _)) if at + 1 == self.w_idx);
        if injected {
            self.rec_w(WStep::Full);
        } else {
            self.rec_w(s);
        }
    }

    fn note_fault(&mut self, ev: u64, kind: ErrKind) {
        if self.first_fault_event.is_none() {
            self.first_fault_event = Some(ev);
            self.first_fault_kind = Some(kind);
            self.first_fault_op = Some(self.cur_op);
        }
    }

    fn decide_write(&mut self, len: usize) -> WStep {
        let i = self.w_idx;
        if let Some((at, step)) = self.plan.fault_write {
            if at == i {
                return step;
            }
        }
        if let Some((from, lo, hi)) = self.plan.fault_write_sized {
            if !self.sized_fired && i >= from && len >= lo && len <= hi {
                self.sized_fired = true;
                return WStep::Zero;
            }
        }
        if i < self.plan.writes.len() {
            return self.plan.writes[i];
        }
        match &mut self.decider {
            Decider::Explicit => match self.plan.rest {
                Rest::Full => WStep::Full,
                Rest::Cap(n) => WStep::Accept(n),
            },
            Decider::Random { shape, rng } => match *shape {
                Shape::Full => WStep::Full,
                Shape::Cap(n) => WStep::Accept(n),
                Shape::Random { short_16, intr_16 } => {
                    let r = rng.below(16) as u8;
                    if r < intr_16 && self.intr_run < 8 {
                        WStep::Intr
                    } else if rng.below(16) < short_16 as u64 && len > 1 {
                        let n = match rng.below(8) {
                            0 | 1 => 1,
                            2 => len - 1,
                            3 => *rng.pick(&[15usize, 16, 17, 31, 32, 33]),
                            4 => *rng.pick(&[2usize, 3, 4, 7, 8, 255, 256]),
                            _ => 1 + rng.usize_below(len - 1),
                        };
                        WStep::Accept(n)
                    } else {
                        WStep::Full
                    }
                }
                Shape::Storm => {
                    if self.intr_run > 0 && self.intr_run < 40 {
                        if rng.chance(9, 10) {
                            WStep::Intr
                        } else {
                            WStep::Full
                        }
                    } else if self.intr_run == 0 && rng.chance(1, 8) {
                        WStep::Intr
                    } else {
                        WStep::Full
                    }
                }
            },
        }
    }

    fn push_ev(&mut self, kind: EvKind, req: usize, outcome: i64) {
        if self.keep_log {
            self.log.push(SinkEv {
                op: self.cur_op,
                kind,
                req,
                outcome,
                durable_after: self.durable.len(),
            });
        }
        // in-flight corruption of already durable bytes
        let ev = self.ev_idx;
        for k in 0..self.plan.flips.len() {
            let f = self.plan.flips[k];
            if f.after_event == ev && !self.durable.is_empty() && f.xor != 0 {
                let p = f.pos % self.durable.len();
                self.durable[p] ^= f.xor;
                self.fired.flip += 1;
            }
        }
        self.ev_idx += 1;
    }

    fn do_write(&mut self, buf: &[u8]) -> io::Result<usize> {
        let ev = self.ev_idx;
        if self.crashed {
            self.push_ev(EvKind::Write, buf.len(), -4);
            return Err(self.plan.err_repr.make(ErrKind::Crash.io_kind(), "sim: crashed"));
        }
        if let Some((c, torn)) = self.plan.crash {
            if ev >= c {
                let n = std::cmp::min(torn, buf.len());
                if !self.discard {
                    self.durable.extend_from_slice(&buf[..n]);
                }
                self.crashed = true;
                self.fired.crash += 1;
                self.note_fault(ev, ErrKind::Crash);
                self.w_idx += 1;
                self.push_ev(EvKind::Write, buf.len(), -4);
                return Err(self.plan.err_repr.make(ErrKind::Crash.io_kind(), "sim: crash"));
            }
        }
        if let Some((s, kind)) = self.plan.sticky {
            if ev >= s {
                self.fired.err += 1;
                self.note_fault(ev, kind);
                self.w_idx += 1;
                self.push_ev(EvKind::Write, buf.len(), -2);
                return Err(self.plan.err_repr.make(kind.io_kind(), "sim: sticky fault"));
            }
        }
        if self.plan.reenter_every > 0 && self.w_idx % self.plan.reenter_every == 0 {
            self.reenter();
        }
        if buf.is_empty() {
            // io::Write allows Ok(0) for an empty buffer; nothing to decide
            self.push_ev(EvKind::Write, 0, 0);
            return Ok(0);
        }
        let step = self.decide_write(buf.len());
        self.w_idx += 1;
        match step {
            WStep::Intr => {
                self.intr_run += 1;
                self.fired.intr += 1;
                self.rec_w(WStep::Intr);
                self.push_ev(EvKind::Write, buf.len(), -1);
                Err(self.plan.err_repr.make(io::ErrorKind::Interrupted, "sim: EINTR"))
            }
            WStep::Err(ErrKind::Panic) => {
                self.fired.err += 1;
                self.note_fault(ev, ErrKind::Panic);
                self.rec_fault_or(step);
                self.push_ev(EvKind::Write, buf.len(), -2);
                panic!("{}", SINK_PANIC);
            }
            WStep::Err(kind) => {
                self.intr_run = 0;
                self.fired.err += 1;
                self.note_fault(ev, kind);
                self.rec_fault_or(step);
                self.push_ev(EvKind::Write, buf.len(), -2);
                Err(self.plan.err_repr.make(kind.io_kind(), "sim: injected fault"))
            }
            WStep::Zero => {
                self.intr_run = 0;
                self.fired.zero += 1;
                self.note_fault(ev, ErrKind::WriteZero);
                self.rec_fault_or(step);
                self.push_ev(EvKind::Write, buf.len(), -3);
                Ok(0)
            }
            WStep::Full | WStep::Accept(_) => {
                self.intr_run = 0;
                let n = match step {
                    WStep::Accept(n) => std::cmp::max(1, std::cmp::min(n, buf.len())),
                    _ => buf.len(),
                };
                if n < buf.len() {
                    self.fired.short += 1;
                    if buf.len() >= 256 {
                        self.fired.split_big += 1;
                    }
                    self.rec_w(WStep::Accept(n));
                } else {
                    self.fired.full += 1;
                    self.rec_w(WStep::Full);
                }
                if !self.discard {
                    self.durable.extend_from_slice(&buf[..n]);
                }
                self.total_accepted += n as u64;
                self.push_ev(EvKind::Write, buf.len(), n as i64);
                Ok(n)
            }
        }
    }

    fn do_flush(&mut self) -> io::Result<()> {
        let ev = self.ev_idx;
        if self.crashed {
            self.push_ev(EvKind::Flush, 0, -4);
            return Err(self.plan.err_repr.make(ErrKind::Crash.io_kind(), "sim: crashed"));
        }
        if let Some((c, _)) = self.plan.crash {
            if ev >= c {
                self.crashed = true;
                self.fired.crash += 1;
                self.note_fault(ev, ErrKind::Crash);
                self.f_idx += 1;
                self.push_ev(EvKind::Flush, 0, -4);
                return Err(self.plan.err_repr.make(ErrKind::Crash.io_kind(), "sim: crash"));
            }
        }
        if let Some((s, kind)) = self.plan.sticky {
            if ev >= s {
                self.fired.flush_err += 1;
                self.note_fault(ev, kind);
                self.f_idx += 1;
                self.push_ev(EvKind::Flush, 0, -2);
                return Err(self.plan.err_repr.make(kind.io_kind(), "sim: sticky fault"));
            }
        }
        let mut step = if self.f_idx < self.plan.flushes.len() {
            self.plan.flushes[self.f_idx]
        } else {
            FStep::Ok
        };
        if let Some((at, kind)) = self.plan.fault_flush {
            if at == self.f_idx {
                step = FStep::Err(kind);
            }
        }
        if self.record {
            let injected = matches!(self.plan.fault_flush, Some((at, _)) if at == self.f_idx);
            self.rec_flushes.push(if injected { FStep::Ok } else { step });
        }
        self.f_idx += 1;
        match step {
            FStep::Ok => {
                self.fired.flush_ok += 1;
                self.push_ev(EvKind::Flush, 0, 0);
                Ok(())
            }
            FStep::Err(kind) => {
                self.fired.flush_err += 1;
                self.note_fault(ev, kind);
                self.push_ev(EvKind::Flush, 0, -2);
                Err(self.plan.err_repr.make(kind.io_kind(), "sim: injected flush fault"))
            }
        }
    }
}

/// The `io::Write` end of a simulated file.
pub struct SimSink(pub SinkHandle);

impl Write for SimSink {
    fn write(&mut self, buf: &[u8]) -> io::Result<usize> {
        self.0.borrow_mut().do_write(buf)
    }
    fn write_vectored(&mut self, bufs: &[io::IoSlice<'_>]) -> io::Result<usize> {
        let mut st = self.0.borrow_mut();
        if st.plan.vectored {
            // a device that gathers: the acceptance length applies to the
            // concatenation of all buffers
            let mut all = Vec::new();
            for b in bufs {
                all.extend_from_slice(b);
            }
            st.do_write(&all)
        } else {
            // the default of io::Write: the first non-empty buffer only
            match bufs.iter().find(|b| !b.is_empty()) {
                Some(b) => st.do_write(b),
                None => st.do_write(&[]),
            }
        }
    }
    fn flush(&mut self) -> io::Result<()> {
        self.0.borrow_mut().do_flush()
    }
}

/// What the builder's own writer argument reported: the outermost layer.
#[derive(Clone, Debug, Default)]
pub struct TapState {
    pub accepted: u64,
    pub write_calls: u64,
    pub flush_calls: u64,
    pub errors: u64,
    /// true iff the last call was a successful flush
    pub flushed_last: bool,
    /// kind of the first non-Interrupted error the builder was shown
    pub first_err: Option<io::ErrorKind>,
    pub zero_returned: bool,
}

pub type TapHandle = Rc<RefCell<TapState>>;

pub enum Layer {
    Direct(SimSink),
    Buffered(io::BufWriter<SimSink>),
}

/// Harness-side recorder between the builder and the (optional) buffer layer.
pub struct Tap {
    pub inner: Layer,
    pub st: TapHandle,
}

impl Tap {
    pub fn new(sink: SinkHandle, bufcap: Option<usize>) -> (Tap, TapHandle) {
        let st: TapHandle = Rc::new(RefCell::new(TapState::default()));
        let inner = match bufcap {
            None => Layer::Direct(SimSink(sink)),
            Some(c) => {
                Layer::Buffered(io::BufWriter::with_capacity(c, SimSink(sink)))
            }
        };
        (Tap { inner, st: st.clone() }, st)
    }
}

impl Tap {
    fn account(&mut self, requested: usize, r: &io::Result<usize>) {
        let mut st = self.st.borrow_mut();
        st.write_calls += 1;
        st.flushed_last = false;
        match r {
            Ok(n) => {
                st.accepted += *n as u64;
                if *n == 0 && requested > 0 {
                    st.zero_returned = true;
                }
            }
            Err(e) => {
                if e.kind() != io::ErrorKind::Interrupted {
                    st.errors += 1;
                    if st.first_err.is_none() {
                        st.first_err = Some(e.kind());
                    }
                }
            }
        }
    }
}

impl Write for Tap {
    fn write_vectored(&mut self, bufs: &[io::IoSlice<'_>]) -> io::Result<usize> {
        // forwarded, so that a BufWriter's own gathering behaviour (and a
        // gathering file) is what a vectored caller meets
        let r = match &mut self.inner {
            Layer::Direct(s) => s.write_vectored(bufs),
            Layer::Buffered(b) => b.write_vectored(bufs),
        };
        let total: usize = bufs.iter().map(|b| b.len()).sum();
        self.account(total, &r);
        r
    }
    fn write(&mut self, buf: &[u8]) -> io::Result<usize> {
        let r = match &mut self.inner {
            Layer::Direct(s) => s.write(buf),
            Layer::Buffered(b) => b.write(buf),
        };
        let mut st = self.st.borrow_mut();
        st.write_calls += 1;
        st.flushed_last = false;
        match &r {
            Ok(n) => {
                st.accepted += *n as u64;
                if *n == 0 && !buf.is_empty() {
                    st.zero_returned = true;
                }
            }
            Err(e) => {
                if e.kind() != io::ErrorKind::Interrupted {
                    st.errors += 1;
                    if st.first_err.is_none() {
                        st.first_err = Some(e.kind());
                    }
                }
            }
        }
        r
    }
    fn flush(&mut self) -> io::Result<()> {
        let r = match &mut self.inner {
            Layer::Direct(s) => s.flush(),
            Layer::Buffered(b) => b.flush(),
        };
        let mut st = self.st.borrow_mut();
        st.flush_calls += 1;
        match &r {
            Ok(()) => st.flushed_last = true,
            Err(e) => {
                st.flushed_last = false;
                st.errors += 1;
                if st.first_err.is_none() {
                    st.first_err = Some(e.kind());
                }
            }
        }
        r
    }
}
