//! "Restart" side of the simulation: what survives a crash or sits corrupted
//! at rest is handed to the REAL open / accessor / verify code (C20, C08-B).

use std::borrow::Cow;
use std::panic::{catch_unwind, AssertUnwindSafe};

use crate::build::{reference_build, run_build, BuildCase};
use crate::front::{panic_msg, TaskSpec};
use crate::oracle::Violation;

#[derive(Clone, Debug, PartialEq, Eq)]
pub enum Mutation {
    /// replace the byte at `pos` by `val`
    Subst { pos: usize, val: u8 },
    /// overwrite bytes starting at `pos`
    Burst { pos: usize, bytes: Vec<u8> },
    /// keep only the first `len` bytes
    Truncate { len: usize },
    /// replace the last `bytes.len()` bytes (garbage footer)
    Tail { bytes: Vec<u8> },
    /// overwrite the 8-byte version field
    Version { v: u64 },
    /// turn a version-3 file into the same data in an older format version:
    /// drop the 4-byte checksum trailer and set the version field (1 or 2)
    Downgrade { v: u64 },
    /// recompute the trailing masked CRC-32C over everything before it, so
    /// that verify() finds a matching checksum on otherwise arbitrary bytes
    /// (untrusted data can carry a valid checksum: a CRC is not a MAC)
    FixChecksum,
    /// replace the trailer by a value *derived from the body* that a lenient
    /// or "compatible" verify() might accept by mistake (the plain CRC-32C,
    /// the mask applied half-way, other byte order, ...). Does nothing when
    /// the derived value equals the right trailer.
    TrailerFrom { kind: TrailerKind },
    /// grow the file to `len` bytes: header kept, the middle filled with one
    /// byte value, the 20-byte footer kept at the new end with its root
    /// address rewritten to `len - 21` (so that the file opens). For sizes
    /// that no replay file could carry in full (4 GiB and more).
    PadTo { len: u64 },
}

#[derive(Clone, Copy, Debug, PartialEq, Eq)]
pub enum TrailerKind {
    Unmasked,
    UnmaskedNoFinalXor,
    MaskedBigEndian,
    MaskedInverted,
    RotateOnly,
    AddOnly,
    MaskedTwice,
    MaskedOfWholeFile,
}

pub const TRAILER_KINDS: [TrailerKind; 8] = [
    TrailerKind::Unmasked,
    TrailerKind::UnmaskedNoFinalXor,
    TrailerKind::MaskedBigEndian,
    TrailerKind::MaskedInverted,
    TrailerKind::RotateOnly,
    TrailerKind::AddOnly,
    TrailerKind::MaskedTwice,
    TrailerKind::MaskedOfWholeFile,
];

impl TrailerKind {
    pub fn name(self) -> &'static str {
        match self {
            TrailerKind::Unmasked => "unmasked_crc32c",
            TrailerKind::UnmaskedNoFinalXor => "unmasked_crc32c_without_final_xor",
            TrailerKind::MaskedBigEndian => "masked_big_endian",
            TrailerKind::MaskedInverted => "masked_inverted",
            TrailerKind::RotateOnly => "rotated_not_offset",
            TrailerKind::AddOnly => "offset_not_rotated",
            TrailerKind::MaskedTwice => "masked_twice",
            TrailerKind::MaskedOfWholeFile => "masked_crc32c_of_whole_file",
        }
    }
    pub fn from_name(n: &str) -> Option<TrailerKind> {
        TRAILER_KINDS.iter().copied().find(|k| k.name() == n)
    }
    pub fn trailer(self, file: &[u8]) -> [u8; 4] {
        let n = file.len();
        let body = &file[..n - 4];
        let c = crate::model::crc32c_fast(body);
        match self {
            TrailerKind::Unmasked => c.to_le_bytes(),
            TrailerKind::UnmaskedNoFinalXor => (!c).to_le_bytes(),
            TrailerKind::MaskedBigEndian => crate::model::mask(c).to_be_bytes(),
            TrailerKind::MaskedInverted => (!crate::model::mask(c)).to_le_bytes(),
            TrailerKind::RotateOnly => c.rotate_right(15).to_le_bytes(),
            TrailerKind::AddOnly => c.wrapping_add(0xA282_EAD8).to_le_bytes(),
            TrailerKind::MaskedTwice => crate::model::mask(crate::model::mask(c)).to_le_bytes(),
            TrailerKind::MaskedOfWholeFile => crate::model::masked_crc32c(file).to_le_bytes(),
        }
    }
}

#[derive(Clone, Debug, PartialEq, Eq)]
pub enum Base {
    /// a finished artifact of a clean in-memory build
    Build(TaskSpec),
    /// whatever the simulated file durably holds after this (crashing) build
    Survivor(BuildCase),
    /// arbitrary bytes
    Raw(Vec<u8>),
}

#[derive(Clone, Debug, PartialEq, Eq)]
pub struct CorruptCase {
    pub base: Base,
    pub muts: Vec<Mutation>,
}

pub fn base_bytes(base: &Base) -> Result<Vec<u8>, String> {
    match base {
        Base::Build(spec) => reference_build(spec)
            .1
            .ok_or_else(|| "harness: clean build failed".to_string()),
        Base::Survivor(bc) => Ok(run_build(bc).sink.durable),
        Base::Raw(b) => Ok(b.clone()),
    }
}

pub fn apply(bytes: &mut Vec<u8>, m: &Mutation) {
    match m {
        Mutation::Subst { pos, val } => {
            if *pos < bytes.len() {
                bytes[*pos] = *val;
            }
        }
        Mutation::Burst { pos, bytes: b } => {
            for (i, x) in b.iter().enumerate() {
                if pos + i < bytes.len() {
                    bytes[pos + i] = *x;
                }
            }
        }
        Mutation::Truncate { len } => {
            if *len < bytes.len() {
                bytes.truncate(*len);
            }
        }
        Mutation::Tail { bytes: b } => {
            let n = std::cmp::min(b.len(), bytes.len());
            let start = bytes.len() - n;
            bytes[start..].copy_from_slice(&b[b.len() - n..]);
        }
        Mutation::Version { v } => {
            if bytes.len() >= 8 {
                bytes[..8].copy_from_slice(&v.to_le_bytes());
            }
        }
        Mutation::Downgrade { v } => {
            if bytes.len() >= 36 {
                let n = bytes.len();
                bytes.truncate(n - 4);
                bytes[..8].copy_from_slice(&v.to_le_bytes());
            }
        }
        Mutation::PadTo { len } => {
            let n = bytes.len();
            let len = *len as usize;
            if n >= 36 && len > n {
                let footer: Vec<u8> = bytes[n - 20..].to_vec();
                bytes.truncate(16);
                bytes.resize(len - 20, 0x5a);
                bytes.extend_from_slice(&footer);
                let root = (len - 21) as u64;
                bytes[len - 12..len - 4].copy_from_slice(&root.to_le_bytes());
            }
        }
        Mutation::TrailerFrom { kind } => {
            let n = bytes.len();
            if n >= 4 {
                let t = kind.trailer(bytes);
                bytes[n - 4..].copy_from_slice(&t);
            }
        }
        Mutation::FixChecksum => {
            let n = bytes.len();
            if n >= 4 {
                let sum = crate::model::masked_crc32c(&bytes[..n - 4]);
                bytes[n - 4..].copy_from_slice(&sum.to_le_bytes());
            }
        }
    }
}

pub fn mutated(case: &CorruptCase) -> Result<(Vec<u8>, Vec<u8>), String> {
    let orig = base_bytes(&case.base)?;
    let mut b = orig.clone();
    for m in &case.muts {
        apply(&mut b, m);
    }
    Ok((orig, b))
}

#[derive(Clone, Debug, Default, PartialEq, Eq)]
pub struct Probe {
    pub opened: bool,
    pub open_err: String,
    /// Some(true) = verify() returned Ok
    pub verify_ok: Option<bool>,
    pub verify_err: String,
    pub len: usize,
    pub panic: Option<String>,
}

/// Open + metadata accessors + verify on untrusted bytes, every step under
/// catch_unwind. Queries are deliberately not called (C20 allows them to
/// panic on garbage).
pub fn probe(bytes: &[u8]) -> Probe {
    let mut p = Probe::default();
    let r = catch_unwind(AssertUnwindSafe(|| {
        let mut out = Probe::default();
        match fst::raw::Fst::new(bytes) {
            Err(e) => out.open_err = format!("{:?}", e),
            Ok(f) => {
                out.opened = true;
                out.len = f.len();
                let _ = f.is_empty();
                let _ = f.fst_type();
                let sz = f.size();
                let ab = f.as_bytes();
                assert!(sz == ab.len(), "harness: size() != as_bytes().len()");
                match f.verify() {
                    Ok(()) => out.verify_ok = Some(true),
                    Err(e) => {
                        out.verify_ok = Some(false);
                        out.verify_err = format!("{:?}", e);
                    }
                }
            }
        }
        out
    }));
    match r {
        Ok(o) => p = o,
        Err(e) => p.panic = Some(format!("raw::Fst::new(&[u8]) path: {}", panic_msg(e))),
    }
    p
}

/// The other containers and wrappers must be total too.
pub fn probe_wrappers(bytes: &[u8]) -> Option<String> {
    let r = catch_unwind(AssertUnwindSafe(|| {
        if let Ok(m) = fst::Map::new(bytes.to_vec()) {
            let _ = (m.len(), m.is_empty());
            let f = m.as_fst();
            let _ = (f.fst_type(), f.size(), f.as_bytes().len());
            let _ = f.verify();
        }
        if let Ok(s) = fst::Set::new(Cow::Borrowed(bytes)) {
            let _ = (s.len(), s.is_empty());
            let f = s.as_fst();
            let _ = (f.fst_type(), f.size(), f.as_bytes().len());
            let _ = f.verify();
        }
        if let Ok(f) = fst::raw::Fst::new(Cow::<[u8]>::Owned(bytes.to_vec())) {
            let _ = (f.len(), f.is_empty(), f.fst_type(), f.size());
            let _ = f.verify();
            // re-opening through map_data must be total as well
            let _ = f.map_data(|d| d.into_owned());
        }
        // map_data is a second way to open arbitrary bytes: what the closure
        // returns need not be what was opened before
        let n = bytes.len();
        let mut rev = bytes.to_vec();
        rev.reverse();
        let others: [Vec<u8>; 6] = [
            vec![],
            bytes[..std::cmp::min(3, n)].to_vec(),
            bytes[..n.saturating_sub(1)].to_vec(),
            bytes[..n / 2].to_vec(),
            rev,
            vec![0u8; 36],
        ];
        for other in others.iter() {
            if let Ok(f) = fst::raw::Fst::new(bytes) {
                if let Ok(g) = f.map_data(|_| other.clone()) {
                    let _ = (g.len(), g.is_empty(), g.fst_type(), g.size(), g.as_bytes().len());
                    let _ = g.verify();
                }
            }
            if let Ok(m) = fst::Map::new(bytes) {
                if let Ok(g) = m.map_data(|_| other.clone()) {
                    let _ = (g.len(), g.is_empty());
                    let _ = g.as_fst().verify();
                }
            }
            if let Ok(s) = fst::Set::new(bytes) {
                if let Ok(g) = s.map_data(|_| other.clone()) {
                    let _ = (g.len(), g.is_empty());
                    let _ = g.as_fst().verify();
                }
            }
        }
    }));
    r.err().map(|e| format!("Map/Set/Cow path: {}", panic_msg(e)))
}

/// The same bytes at several misalignments relative to a 16-byte boundary
/// (a slice into a larger container, an `include_bytes!` static): open +
/// verify must behave exactly as for the aligned copy. Returns
/// (verify result per offset, panic message).
pub fn probe_unaligned(bytes: &[u8]) -> (Vec<Option<bool>>, Option<String>) {
    let n = bytes.len();
    let mut buf = vec![0u8; n + 32];
    let base = buf.as_ptr() as usize;
    let mut res = Vec::new();
    for want in [1usize, 5, 8, 15] {
        // offset such that the slice starts at `want` modulo 16
        let off = (16 + want - (base % 16)) % 16;
        buf[off..off + n].copy_from_slice(bytes);
        let slice = &buf[off..off + n];
        let r = catch_unwind(AssertUnwindSafe(|| match fst::raw::Fst::new(slice) {
            Err(_) => None,
            Ok(f) => Some(f.verify().is_ok()),
        }));
        match r {
            Ok(x) => res.push(x),
            Err(p) => {
                return (res, Some(format!("bytes at address = {} mod 16: {}", want, panic_msg(p))));
            }
        }
    }
    (res, None)
}

/// C20: nothing panics.
// ------------------------------------------ C20: the environment of the call

#[repr(C)]
struct Rlimit {
    cur: u64,
    max: u64,
}
extern "C" {
    fn getrlimit(resource: i32, rlim: *mut Rlimit) -> i32;
    fn setrlimit(resource: i32, rlim: *const Rlimit) -> i32;
}
const RLIMIT_AS: i32 = 9;

/// The body of `fstsim c20-env <mode>`: the bytes arrive on stdin.
/// mode "stack": open + accessors + verify on a thread with a 256 KiB stack.
/// mode "starved": the same on the main thread while the address space of
/// the process may grow by 1 MiB only (no room for a new thread's stack or a
/// large buffer: allocation and thread creation fail).
/// Prints "OK ..." or "PANIC <message>"; dying is the third outcome.
pub fn env_child(mode: &str, input: Vec<u8>) -> String {
    let show = |p: &Probe| match &p.panic {
        Some(m) => format!("PANIC {}", m.replace('\n', " ")),
        None => format!("OK opened={} verify={:?}", p.opened, p.verify_ok),
    };
    if mode == "threads" {
        // one opened object shared by four threads that verify it at the
        // same time (and read its metadata): a reader is a function of the
        // bytes, whoever else looks at them
        let f = match fst::raw::Fst::new(&input[..]) {
            Ok(f) => f,
            Err(_) => return "OK opened=false verify=None".to_string(),
        };
        let barrier = std::sync::Barrier::new(4);
        let results: Vec<Result<bool, String>> = std::thread::scope(|s| {
            let hs: Vec<_> = (0..4)
                .map(|_| {
                    s.spawn(|| {
                        barrier.wait();
                        catch_unwind(AssertUnwindSafe(|| {
                            let ok = f.verify().is_ok();
                            let _ = (f.len(), f.size(), f.fst_type());
                            ok
                        }))
                        .map_err(panic_msg)
                    })
                })
                .collect();
            hs.into_iter().map(|h| h.join().unwrap_or_else(|_| Err("thread died".to_string()))).collect()
        });
        for r in &results {
            if let Err(m) = r {
                return format!("PANIC {}", m.replace('\n', " "));
            }
        }
        if results.iter().any(|r| r != &results[0]) {
            return "PANIC verify() gave different answers to threads sharing one Fst".to_string();
        }
        return format!("OK opened=true verify={:?}", results[0]);
    }
    if mode == "stack" {
        let h = std::thread::Builder::new().stack_size(256 << 10).spawn(move || probe(&input)).expect("harness: spawn");
        return match h.join() {
            Ok(p) => show(&p),
            Err(_) => "PANIC (thread died)".to_string(),
        };
    }
    let vm_pages: u64 = std::fs::read_to_string("/proc/self/statm")
        .ok()
        .and_then(|s| s.split_whitespace().next().and_then(|x| x.parse().ok()))
        .unwrap_or(0);
    if vm_pages > 0 {
        let mut old = Rlimit { cur: 0, max: 0 };
        unsafe {
            if getrlimit(RLIMIT_AS, &mut old) == 0 {
                let lim = Rlimit { cur: std::cmp::min(old.cur, vm_pages * 4096 + (1 << 20)), max: old.max };
                setrlimit(RLIMIT_AS, &lim);
            }
        }
    }
    let p = probe(&input);
    show(&p)
}

fn env_probe(bytes: &[u8]) -> Option<String> {
    use std::io::{Read, Write};
    use std::process::{Command, Stdio};
    for mode in ["stack", "starved", "threads"] {
        let exe = std::env::current_exe().expect("harness: current_exe");
        let mut child = Command::new(exe)
            .args(["c20-env", mode])
            .stdin(Stdio::piped())
            .stdout(Stdio::piped())
            .stderr(Stdio::null())
            .spawn()
            .expect("harness: spawn c20-env");
        let mut stdin = child.stdin.take().expect("harness: stdin");
        let _ = stdin.write_all(bytes);
        drop(stdin);
        let mut out = String::new();
        let _ = child.stdout.take().expect("harness: stdout").read_to_string(&mut out);
        let st = child.wait().expect("harness: wait");
        let what = match mode {
            "stack" => "on a thread with a 256 KiB stack",
            "starved" => "in a process that cannot grow its address space (no new thread, no large buffer)",
            _ => "on one Fst shared by four threads verifying at the same time",
        };
        if !st.success() {
            return Some(format!("the process died ({}) during open + accessors + verify {}", st, what));
        }
        if let Some(m) = out.trim().strip_prefix("PANIC ") {
            return Some(format!("{} {}", m, what));
        }
    }
    None
}

/// Names of environment variables the library's sources mention in files that
/// read the process environment at run time (string literals that look like
/// variable names, in files containing `env::var` / `var_os`). Empty on a
/// tree that reads none — the shipped library does not.
pub fn env_names_read_by_library() -> &'static [String] {
    static NAMES: std::sync::OnceLock<Vec<String>> = std::sync::OnceLock::new();
    NAMES.get_or_init(|| {
        fn walk(dir: &std::path::Path, out: &mut Vec<String>) {
            let mut entries: Vec<_> = match std::fs::read_dir(dir) {
                Ok(r) => r.filter_map(|e| e.ok().map(|e| e.path())).collect(),
                Err(_) => return,
            };
            entries.sort();
            for p in entries {
                if p.is_dir() {
                    walk(&p, out);
                } else if p.extension().map(|e| e == "rs").unwrap_or(false) {
                    let text = match std::fs::read_to_string(&p) {
                        Ok(t) => t,
                        Err(_) => continue,
                    };
                    if !(text.contains("env::var") || text.contains("var_os") || text.contains("env::vars")) {
                        continue;
                    }
                    for piece in text.split('"').skip(1).step_by(2) {
                        let ok = piece.len() >= 3
                            && piece.len() <= 64
                            && piece.bytes().next().map(|b| b.is_ascii_uppercase()).unwrap_or(false)
                            && piece.bytes().all(|b| b.is_ascii_uppercase() || b.is_ascii_digit() || b == b'_');
                        if ok && !out.iter().any(|x| x == piece) {
                            out.push(piece.to_string());
                        }
                    }
                }
            }
        }
        let mut out = Vec::new();
        walk(std::path::Path::new("/repo/src"), &mut out);
        out
    })
}

/// "For any byte string": also in any process environment. If the library
/// reads environment variables, open + accessors + verify of `bytes` run in
/// child processes with each of those variables set to hostile values, for
/// one openable file in 64 (chosen by content); nothing happens on a tree
/// whose library reads no environment variable.
fn hostile_env_probe(bytes: &[u8]) -> Option<String> {
    use std::io::{Read, Write};
    use std::process::{Command, Stdio};
    let names = env_names_read_by_library();
    if names.is_empty() || bytes.len() > (1 << 20) {
        return None;
    }
    // one file in 64, chosen by its content (the same file is chosen again
    // when the case is re-executed or replayed)
    let mut d = crate::rng::Digest::new();
    d.bytes(bytes);
    if d.finish() % 64 != 0 {
        return None;
    }
    // (files that do not open never reach the code behind the variables)
    if !catch_unwind(AssertUnwindSafe(|| fst::raw::Fst::new(bytes).is_ok())).unwrap_or(false) {
        return None;
    }
    for name in names {
        for val in ["0", "", "1", "-1", "x", "18446744073709551615", "99999999999999999999999", "0.5", "true"] {
            let exe = std::env::current_exe().expect("harness: current_exe");
            let mut child = Command::new(exe)
                .args(["c20-env", "stack"])
                .env(name, val)
                .stdin(Stdio::piped())
                .stdout(Stdio::piped())
                .stderr(Stdio::null())
                .spawn()
                .expect("harness: spawn c20-env");
            let mut stdin = child.stdin.take().expect("harness: stdin");
            let _ = stdin.write_all(bytes);
            drop(stdin);
            let mut out = String::new();
            let _ = child.stdout.take().expect("harness: stdout").read_to_string(&mut out);
            let st = child.wait().expect("harness: wait");
            if !st.success() {
                return Some(format!("the process died ({}) during open + accessors + verify with the environment variable {}={:?} (the library reads it)", st, name, val));
            }
            if let Some(m) = out.trim().strip_prefix("PANIC ") {
                return Some(format!("{} in a process whose environment has {}={:?} (the library reads it)", m, name, val));
            }
        }
    }
    None
}

pub fn check_c20_bytes(bytes: &[u8]) -> Option<Violation> {
    if let Some(m) = hostile_env_probe(bytes) {
        return Some(Violation {
            oracle: "C20.panic_in_open_accessors_or_verify".into(),
            observed: format!("{} on {} bytes", m, bytes.len()),
        });
    }
    if bytes.len() >= (1 << 30) {
        // a file of a GiB or more: the in-process probe only (copies, child
        // processes and unaligned placements would move tens of GiB around)
        let p = probe(bytes);
        return p.panic.map(|m| Violation {
            oracle: "C20.panic_in_open_accessors_or_verify".into(),
            observed: format!("{} on {} bytes", m, bytes.len()),
        });
    }
    if bytes.len() >= (4 << 20) - 16 {
        if let Some(m) = env_probe(bytes) {
            return Some(Violation {
                oracle: "C20.panic_in_open_accessors_or_verify".into(),
                observed: format!("{} on {} bytes", m, bytes.len()),
            });
        }
    }
    if bytes.len() >= 4096 {
        let (_, p) = probe_unaligned(bytes);
        if let Some(m) = p {
            return Some(Violation {
                oracle: "C20.panic_in_open_accessors_or_verify".into(),
                observed: format!("{} on {} bytes", m, bytes.len()),
            });
        }
    }
    let p = probe(bytes);
    if let Some(m) = p.panic {
        return Some(Violation {
            oracle: "C20.panic_in_open_accessors_or_verify".into(),
            observed: format!("{} on {} bytes", m, bytes.len()),
        });
    }
    if let Some(m) = probe_wrappers(bytes) {
        return Some(Violation {
            oracle: "C20.panic_in_open_accessors_or_verify".into(),
            observed: format!("{} on {} bytes", m, bytes.len()),
        });
    }
    None
}

/// C08-B: a corrupted artifact is never certified (and nothing panics).
/// `orig` must be a finished artifact; `bytes` the altered copy.
pub fn check_c08b_bytes(orig: &[u8], bytes: &[u8], deep: bool) -> Option<Violation> {
    if orig == bytes {
        return None; // not a corruption
    }
    let p = probe(bytes);
    if let Some(m) = p.panic {
        return Some(Violation {
            oracle: "C08.B.panic_on_corrupted_artifact".into(),
            observed: m,
        });
    }
    // the same buffer a moment later: it verified, then its bytes changed in
    // place (same address, same length)
    if deep && orig.len() == bytes.len() {
        let r = catch_unwind(AssertUnwindSafe(|| -> Option<bool> {
            let mut buf = orig.to_vec();
            let first = fst::raw::Fst::new(&buf[..]).ok()?.verify().is_ok();
            if !first {
                return None; // `orig` is not a valid artifact: nothing to certify
            }
            buf.copy_from_slice(bytes);
            Some(match fst::raw::Fst::new(&buf[..]) {
                Err(_) => false,
                Ok(f) => f.verify().is_ok(),
            })
        }));
        match r {
            Err(p) => {
                return Some(Violation {
                    oracle: "C08.B.panic_on_corrupted_artifact".into(),
                    observed: format!("after an in-place change: {}", panic_msg(p)),
                })
            }
            Ok(Some(true)) => {
                return Some(Violation {
                    oracle: "C08.B.corruption_certified_as_valid".into(),
                    observed: format!(
                        "artifact of {} bytes verified, was then altered in place, and verify() on the same buffer still returns Ok",
                        orig.len()
                    ),
                })
            }
            _ => {}
        }
    }
    // the second way to put other bytes behind an opened FST: map_data
    if deep {
        let r = catch_unwind(AssertUnwindSafe(|| -> bool {
            match fst::raw::Fst::new(orig.to_vec()) {
                Err(_) => false,
                Ok(f) => match f.map_data(|_| bytes.to_vec()) {
                    Err(_) => false,
                    Ok(g) => g.verify().is_ok(),
                },
            }
        }));
        match r {
            Err(p) => {
                return Some(Violation {
                    oracle: "C08.B.panic_on_corrupted_artifact".into(),
                    observed: format!("through map_data: {}", panic_msg(p)),
                })
            }
            Ok(true) => {
                return Some(Violation {
                    oracle: "C08.B.corruption_certified_as_valid".into(),
                    observed: format!(
                        "artifact of {} bytes: map_data onto an altered copy succeeds and verify() returns Ok",
                        orig.len()
                    ),
                })
            }
            Ok(false) => {}
        }
    }
    if p.opened && p.verify_ok == Some(true) {
        let n = std::cmp::min(orig.len(), bytes.len());
        let pos = (0..n).find(|&i| orig[i] != bytes[i]).unwrap_or(n);
        return Some(Violation {
            oracle: "C08.B.corruption_certified_as_valid".into(),
            observed: format!(
                "artifact of {} bytes altered from byte {} on still opens and verify() returns Ok",
                orig.len(),
                pos
            ),
        });
    }
    None
}
