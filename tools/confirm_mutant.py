#!/usr/bin/env python3
"""Confirm a seeded change produced by a sub-agent, then keep it.

usage: confirm_mutant.py <worktree> <k> <seeded-id> <property> [check-props...]

In the agent's scratch worktree: apply demo/change<k>.diff, build, run the
existing test suite (must pass), run the demonstration (must FAIL), undo the
change, run the demonstration again (must PASS). Then run our own quick checks
against /repo with the patch applied (tools/try_mutant.sh) and store
everything under /verif/seeded/<seeded-id>/.
"""
import json, os, shutil, subprocess, sys, time, glob

wt, k, sid, prop = sys.argv[1], sys.argv[2], sys.argv[3], sys.argv[4]
check_props = sys.argv[5:] or [prop]
demo_dir = f"{wt}/demo"
diff = f"{demo_dir}/change{k}.diff"
env = dict(os.environ, CARGO_TARGET_DIR=f"{wt}/target", CARGO_NET_OFFLINE="true", CARGO_TERM_COLOR="never")

def sh(cmd, cwd=wt, timeout=1800):
    r = subprocess.run(cmd, shell=True, cwd=cwd, env=env, capture_output=True, text=True, timeout=timeout)
    return r.returncode, (r.stdout + r.stderr)

def demo_file():
    c = glob.glob(f"{demo_dir}/change{k}_demo.*")
    return c[0] if c else None

rel = "--release" if os.environ.get("CONFIRM_RELEASE") else ""  # a demonstration that needs the release profile

def run_demo():
    d = demo_file()
    if d is None:
        return None, "no demo file"
    if d.endswith(".rs"):
        name = f"seeded_demo_{k}"
        # fst-bin demos may need the binary; integration tests of the root crate otherwise
        shutil.copy(d, f"{wt}/tests/{name}.rs")
        # (a demonstration may drive the built `fst` binary: bring it up to date first)
        rc, out = sh(f"cargo build --workspace --offline >/dev/null 2>&1; cargo test {rel} --test {name} --offline -- --test-threads=1 2>&1 | tail -40")
        # cargo test exit code is lost by the pipe: look at the summary
        ok = ("test result: ok" in out) and ("FAILED" not in out) and ("could not compile" not in out)
        os.remove(f"{wt}/tests/{name}.rs")
        return ok, out[-1500:]
    else:
        rc, out = sh(f"cargo build --workspace --offline >/dev/null 2>&1; bash {d} 2>&1 | tail -40")
        rc2, _ = sh(f"bash {d} >/dev/null 2>&1")
        return rc2 == 0, out[-1500:]

meta = {"id": sid, "property": prop, "source": f"sub-agent worktree {wt}, change {k}", "confirmed_at": time.strftime("%Y-%m-%dT%H:%M:%S")}
sh("git checkout -- . && git clean -fdq tests/ 2>/dev/null; true")
rc, out = sh(f"git apply --check {diff}")
if rc != 0:
    print("diff does not apply", out); sys.exit(1)
sh(f"git apply {diff}")
rc, out = sh("cargo build --workspace --offline 2>&1 | tail -5")
meta["builds_with_change"] = "Finished" in out or "error" not in out
rc, out = sh("cargo test --workspace --no-fail-fast --offline 2>&1 | grep -E '^test result|FAILED|panicked' | head -20")
lines = [l for l in out.splitlines() if l.startswith("test result")]
passed = sum(int(l.split(" passed")[0].split()[-1]) for l in lines)
failed = sum(int(l.split(" failed")[0].split()[-1]) for l in lines)
meta["existing_suite_with_change"] = {"passed": passed, "failed": failed}
ok_with, out_with = run_demo()
meta["demo_with_change"] = "FAILS (as required)" if ok_with is False else f"unexpected: ok={ok_with}"
sh("git checkout -- .")
ok_without, out_without = run_demo()
meta["demo_without_change"] = "passes (as required)" if ok_without else f"unexpected: ok={ok_without}"
meta["confirmed"] = bool(meta["builds_with_change"] and failed == 0 and passed >= 108 and ok_with is False and ok_without)
# what it needs to manifest: taken from the agent's note
md = f"{demo_dir}/change{k}.md"
meta["needs_to_manifest_and_description"] = open(md).read()[:3000] if os.path.exists(md) else ""
print(json.dumps({k2: v for k2, v in meta.items() if k2 != "needs_to_manifest_and_description"}, indent=1))
if not meta["confirmed"]:
    print("NOT CONFIRMED; demo output with change:\n", out_with, "\nwithout:\n", out_without)
    sys.exit(1)
# our own checks against /repo with the patch applied
os.makedirs(f"/tmp/mutant-keep-{sid}", exist_ok=True)
r = subprocess.run(["/verif/tools/try_mutant.sh", diff] + check_props, capture_output=True, text=True, timeout=3600,
                   env=dict(os.environ, MUTANT_KEEP=f"/tmp/mutant-keep-{sid}"))
meta["our_checks"] = r.stdout.strip().splitlines()
meta["what_was_run"] = [
    f"in {wt}: git apply change{k}.diff; cargo build --workspace --offline; cargo test --workspace --no-fail-fast --offline; demo as tests/seeded_demo_{k}.rs (with and without the change)",
    f"/verif/tools/try_mutant.sh change{k}.diff " + " ".join(check_props) + "  (git -C /repo apply; ./check <P>; git -C /repo checkout -- .)",
]
dst = f"/verif/seeded/{sid}"
os.makedirs(dst, exist_ok=True)
shutil.copy(diff, f"{dst}/patch.diff")
d = demo_file()
shutil.copy(d, f"{dst}/demo" + os.path.splitext(d)[1])
for f in glob.glob(f"/tmp/mutant-keep-{sid}/*.json"):
    shutil.copy(f, f"{dst}/replay-" + os.path.basename(f))
shutil.rmtree(f"/tmp/mutant-keep-{sid}", ignore_errors=True)
json.dump(meta, open(f"{dst}/meta.json", "w"), indent=1)
print("\n".join(meta["our_checks"]))
