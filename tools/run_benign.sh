#!/usr/bin/env bash
# Run every quick check against each behaviour-preserving change in /verif/benign
# (patched copy bind-mounted over /repo). Any exit code other than 0 is a false
# alarm (1) or a harness that is over-fitted to the implementation (2).
cd /verif
for d in benign/benign*.diff; do
  echo "=== $d"
  MUTANT_TARGET=/tmp/mutant-target-benign tools/try_mutant.sh "$d" C01 C06 C07 C08 C11 C13 C14 C15 C19 C20
done
