#!/usr/bin/env python3
"""Token scan of the library sources for the keyword `unsafe`.

usage: unsafe_scan.py <repo>   -> prints "file:line: text" per hit, exit 1 if any

The compile-time lint (-F unsafe_code) sees only what the chosen cfg keeps and
what macros expand to in that configuration; this scan sees every token of
src/**/*.rs, including macro bodies and items behind any #[cfg]. Comments
(nested block comments too), string / raw string / byte string literals and
char literals are skipped, so the word in prose or in a lint name such as
`unsafe_code` is not a hit."""
import os, re, sys

def strip(src):
    out = []
    i, n = 0, len(src)
    while i < n:
        c = src[i]
        if src.startswith("//", i):
            j = src.find("\n", i)
            j = n if j < 0 else j
            out.append(" " * (j - i)); i = j; continue
        if src.startswith("/*", i):
            depth, j = 1, i + 2
            while j < n and depth:
                if src.startswith("/*", j): depth += 1; j += 2
                elif src.startswith("*/", j): depth -= 1; j += 2
                else: j += 1
            out.append("".join(ch if ch == "\n" else " " for ch in src[i:j])); i = j; continue
        m = re.match(r'(?:b|c)?r(#*)"', src[i:])
        if m and (i == 0 or not (src[i-1].isalnum() or src[i-1] == "_")):
            close = '"' + m.group(1)
            j = src.find(close, i + len(m.group(0)))
            j = n if j < 0 else j + len(close)
            out.append("".join(ch if ch == "\n" else " " for ch in src[i:j])); i = j; continue
        if c == '"' or (c in "bc" and src.startswith('"', i + 1) and (i == 0 or not (src[i-1].isalnum() or src[i-1] == "_"))):
            j = i + (1 if c == '"' else 2)
            while j < n and src[j] != '"':
                j += 2 if src[j] == "\\" else 1
            j = min(n, j + 1)
            out.append("".join(ch if ch == "\n" else " " for ch in src[i:j])); i = j; continue
        if c == "'":
            if i + 1 < n and src[i+1] == "\\":
                j = src.find("'", i + 3)
                j = n if j < 0 else j + 1
                out.append(" " * (j - i)); i = j; continue
            if i + 2 < n and src[i+2] == "'":
                out.append("   "); i += 3; continue
            out.append(" "); i += 1; continue  # a lifetime
        out.append(c); i += 1
    return "".join(out)

def main():
    repo = sys.argv[1]
    hits = []
    for root, _, files in os.walk(os.path.join(repo, "src")):
        for f in sorted(files):
            if not f.endswith(".rs"):
                continue
            p = os.path.join(root, f)
            src = open(p, encoding="utf-8", errors="replace").read()
            code = strip(src)
            lines = src.splitlines()
            for ln, text in enumerate(code.splitlines(), 1):
                if re.search(r"\bunsafe\b", text):
                    hits.append(f"{os.path.relpath(p, repo)}:{ln}: {lines[ln-1].strip()[:160]}")
    for h in hits:
        print(h)
    sys.exit(1 if hits else 0)

main()
