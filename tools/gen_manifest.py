#!/usr/bin/env python3
"""Generate /verif/MANIFEST.json (kept as a script so the per-check texts live in one place)."""
import json, subprocess

hooks_commits = subprocess.check_output(
    ["git", "-C", "/repo", "log", "--format=%h %s", "--grep=^verif hook"], text=True).strip().splitlines()

def chk(pid, level, text, note, technique, ref, engine="fstsim"):
    return {
        "property_id": pid,
        "quick_cmd": f"./check {pid} --tier quick",
        "thorough_cmd": f"./check {pid} --tier thorough",
        "evidence_file": f"/verif/evidence/{pid}.json",
        "replay_cmd_template": "./check replay {path}",
        "engine": engine,
        "level_claimed": {"category": level, "text": text, "design_ref": ref},
        "level_note": note,
        "technique": technique,
    }

TWO = (" Every Engine A check runs twice: library compiled with debug assertions and overflow checks on (all run indices) and with both off (a quarter of them; all for C13/C14). "
       "A failure that does not reproduce alone in a fresh process is replayed with the minimised list of run indices that preceded it in its thread (state kept by the code under test between uses).")

TB_A = ("Trusted: the simulated file (SimSink) as a model of what io::Write permits; the harness reference models "
        "(ordered map, ordering contract, bitwise CRC-32C with RFC 3720 known answers); seeded sampling, so a clean batch is evidence, not proof. "
        "Real code under test: the fst builders, CountingWriter, CRC, node encoders, registry, readers, std BufWriter/write_all." + TWO)

checks = [
    chk("C01", "exploration",
        "Seeded simulation of legal builder call histories through every front end into a simulated file with benign short writes/Interrupted, "
        "under a per-run node-cache geometry knob (incl. disabled cache, 1-cell cache that evicts on every insert, >=3 columns); what the file durably holds is reopened with the real readers "
        "and compared entry by entry with an ordered-map model (stream, into_byte_vec, keys, values, len, is_empty) plus the independent CRC oracle; plus streamed families of 1e5 (quick) / 3e6 (thorough) keys, constructed address-delta boundaries (255 .. 2^24+1), worlds around one key of 64 KiB .. 1 MiB (+-1), maps whose sibling nodes collide in the node cache's documented 64-bit FNV hash, and readers dropped half-way (a stream after two items, a bounded range after one, early-exit set relations) before the complete read-back enumeration.",
        TB_A, "deterministic simulation: seeded builder histories x cache-geometry knob x benign sink schedules, ordered-map reference model", "DESIGN.md §5 C01"),
    chk("C06", "exploration",
        "History checking of the stateful builder API against an ordering-contract reference model, call by call (variant and payload of every result), observed together with the sink: "
        "a rejected call must cause zero writer calls and leave bytes_written unchanged; bulk calls must stop pulling at the rejected item; final bytes must equal a clean rebuild of exactly the accepted sequence. "
        "All histories of length <= 5 (6 thorough) over a 5-key universe are enumerated for 12 front-end variants (map/set/raw single calls, raw add, extend_iter, extend_stream, Set/Map::from_iter, Fst::from_iter_set/map); random histories up to 200 calls with 0-60% illegal calls, 1/16 of them with keys longer than 1 KiB; nine worlds around ONE accepted key of 64 KiB .. 1 MiB (+-1) with the calls that must be refused right after it; from_iter fed by iterators with four size-hint behaviours (nothing, exact, usize::MAX, 'empty'); in a sixth of the random histories the caller's key source panics inside a bulk call, the panic is caught and the same builder is used further.",
        TB_A, "deterministic simulation: call-history checking against a contract model with sink-event observation; exhaustive small scope + seeded random histories", "DESIGN.md §5 C06"),
    chk("C07", "fault_enumeration",
        "Benign-fault simulation of the io::Write sink: per workload (incl. ones with a 33..256-way node and its 256-byte index) every fixed cap 1..16 and every position of a single short write (1 and len-1 bytes), of a single Interrupted and of a burst of 9/17/33 Interrupted are enumerated; "
        "random runs sample acceptance shapes, Interrupted storms, BufWriter capacities (below the 256-byte index too), prefilled sinks, natively vectored files and four representations of the file's io::Error values (text payload, bare kind, errno, fst::Error payload); one position per workload gets 100 000 Interrupted in a row on an ordinary 2 MiB stack, and long builds (4e5 keys, thorough up to 4e6: millions of write calls) run on a sink that returns Interrupted once before EVERY write call for the whole life of the builder and must end with the bytes of the in-memory build. Invariant after every public call: bytes_written() == bytes the writer accepted; "
        "after finish: durable bytes identical to a Vec<u8> build and all present when finish returned, footer == independent CRC, opens, verifies, same content.",
        TB_A, "deterministic simulation with fault injection: enumerated + seeded sink acceptance schedules (short writes, EINTR, buffering, prefill)", "DESIGN.md §5 C07"),
    chk("C08", "fault_enumeration",
        "A: every artifact's footer (clean builds, builds through short-writing sinks, one multi-MiB streamed artifact) is compared with an independent bitwise CRC-32C; arbitrary payloads (0..4096 B) are pushed through the real counting writer (hook) with the sink's acceptance schedule as the chunking. "
        "B: at-rest fault enumeration: every byte position x every other value on artifacts <= 160 B (about 8e6 corruptions quick), bursts of 2-4 bytes at every offset, sampled corruptions on larger files and flips of durable bytes while the build runs; "
        "the trailer replaced by eight values derived from the body (plain CRC, half-applied mask, other byte order, ...), artifacts constructed so that their checksum is a boundary value or one byte away from the plain CRC; artifacts from Default / from_iter entry points; builds whose history contains refused calls and bulk calls that end early; every deep corruption also applied in place to a buffer that verified a moment ago (incl. artifacts of 250-500 KiB); open-then-verify must never return Ok on a corrupted artifact and nothing may panic.",
        TB_A, "deterministic simulation with fault injection: at-rest/in-flight byte corruption enumeration + sink-chunking schedules against an independent CRC-32C", "DESIGN.md §5 C08"),
    chk("C11", "fault_enumeration",
        "Hard-fault enumeration: for each workload and layering (direct / short writes / BufWriter) a dry run measures the sink calls, then every sink call index (writes and flushes) fails with each of 8 ErrorKinds or Ok(0) (flushes also with Interrupted), transient and sticky, the error built in one of four representations per run (text payload, bare kind, errno, a payload that is itself an fst::Error); six multi-MiB builds with one fault far into the output and four large set builds in which the first write of 3..7 bytes (an address more than 64 KiB back) after a drawn call index returns Ok(0); a fifth of the workloads have keys that are long valid UTF-8 text (multi-byte characters across offsets 16..256), for error paths that format or cut the key of the failing call. "
        "Oracles: no panic; the public call in progress returns Err(Io(kind)) (WriteZero for Ok(0)); earlier calls unchanged; finish returns Ok only if the sink saw a successful flush after its last write and holds exactly the reference bytes.",
        TB_A + " The simulated caller stops at the first Err(Io).", "deterministic simulation with fault injection: enumeration of the failing sink call x error kind x stickiness x layering", "DESIGN.md §5 C11"),
    chk("C13", "exploration",
        "Streaming builds of 1e4..3e6 (thorough 3e7) keys with bounded fan-out and key length and almost no node sharing (fixed-length keys, prefix pairs, leaf fans of distinct 33..64-way nodes, strictly decreasing values), under a counting global allocator, for sets and maps, several cache geometries and sink acceptance shapes; "
        "plus bulk calls (one extend_iter / extend_stream over 4e5 items), runs of 150 000 repeats of one key, one uninterrupted run of 1e5 refused inserts half way, sectioned streams (a vocabulary of tails found in the cache again and again, then displaced), keys of 65..1000 bytes, single builders that emit > 64 MiB and > 110 MiB, a builder handed back and forth between two long-lived threads (heap summed over both), builds that begin with the empty key and/or a bulk call that returns an error half-way, raw builders on which insert (with an output) and add (without) are mixed (one valued header row then adds only; a valued first half), and keys far longer than all earlier ones arriving late; live requested heap is checked against a bound computed from (measured constructor allocation, geometry, fan-out, key length) at every 1000th insert; growth over the last nine tenths is reported. Builder errors in these runs are recorded, not judged (C06/C01/C11 judge them).",
        "Trusted: the counting allocator (requested bytes of the building thread) and the arithmetic bound derived from struct sizes on a 64-bit target. Asymptotic claim checked at finitely many scales.",
        "deterministic simulation: allocator seam (counting global allocator) with invariant checkpoints during streamed builds", "DESIGN.md §5 C13"),
    chk("C14", "exploration",
        "For key families at two sizes (1e3 vs 1e5/1e6; thorough 5e6) the peak requested heap of stream/keys/values/range/search (4 automata)/set operations over k=2,4,8 inputs, mixed stream kinds and tiny/disjoint companion FSTs is measured under the counting allocator; "
        "operands whose key ranges do not interleave (segments), operands handed over through Extend/FromIterator from a filter iterator, 20 000 successor queries and 2 000 small unions dropped early followed by one more complete scan, it must stay under a bound in (k, key length) and must not grow with N beyond one doubling step; open + 5000 look-ups on borrowed bytes (also as a version-2 file, also more than 2^20 look-ups on one opened object, also in a fresh process whose first contact with the library is opening bytes another process built) must allocate nothing.",
        "Trusted: the counting allocator; per-item allocate-and-free is not judged (the property is about heap held).",
        "deterministic simulation: allocator seam (counting global allocator) around traversals at two scales", "DESIGN.md §5 C14"),
    chk("C15", "exploration",
        "Worlds of 2-6 builder tasks that receive one accepted sequence through different front ends (incl. from_iter/memory entry points and the union-of-parts merge recipe), call groupings, sink schedules and buffer layers, plus disturber tasks (they die with an injected I/O error mid-output, are dropped without finish, or their writer panics inside write()), same-sequence tasks whose writer re-enters the library inside write() or whose key source panics inside a bulk call, set tasks in which the key that ended one call is repeated at the head of the next, interleaved call by call by a seeded scheduler; the empty sequence through every entry point incl. Map/Set::default(); the same sequence before and after 255 .. 65 536 other builder objects in one thread; "
        "all outputs must be byte-identical. Large in-memory builds (3e5 keys, cache rows overflow) are also fingerprinted by both build profiles of the simulator (with / without debug assertions and overflow checks) and must agree. The same run indices are re-executed in separate processes at several worker counts and per-index digests compared (processes clause). Threads clause: Engine C compiles an instrumented copy of the library (std sync primitives mapped to shuttle) and lets 2-4 simulated threads build the same sequence through different entry points as the first thing in a fresh process, then warm, under seeded schedules.",
        TB_A + " Interleaving is at public-call granularity (the library has no shared mutable state).",
        "deterministic simulation: seeded call-level scheduler over multiple builder tasks + cross-process re-execution", "DESIGN.md §5 C15"),
    chk("C20", "fault_enumeration",
        "Crash-restart simulation: a build is cut at every sink event (durable prefix, torn in-flight write of several lengths, lost BufWriter buffer); survivors, corrupted artifacts, boundary header/footer strings (root address/len/version boundary values, lengths 0..64), bytes whose checksum was recomputed over garbage, and random strings are reopened "
        "through Fst/Map/Set::new over &[u8], Vec and Cow, then every metadata accessor, verify and map_data (also with a closure that returns other bytes) run under catch_unwind with overflow checks on. Also 464 openable files of round sizes (2^k+d, k=12..23; m MiB+d) with wrong and recomputed checksum, one artifact above 1 MiB with every footer field at boundary values, node-shaped garbage; files of 4 MiB and more are also opened and verified in child processes on a 256 KiB-stack thread, with the address space capped (failing allocation / thread creation as the injected fault), and by four threads sharing one opened Fst; if the library's sources read environment variables, one openable file in 64 is also opened and verified in child processes with each such variable set to hostile values (none on the shipped tree). The 'no unsafe code' clause is a compile of the library with -F unsafe_code in both profiles (debug and --release, with the levenshtein feature) plus a token scan of src/**/*.rs for the keyword (all cfg branches and macro bodies); a lint, reported as such.",
        TB_A + " Queries on garbage are deliberately not called (the property allows them to panic).",
        "deterministic simulation with fault injection: crash at every sink event + at-rest corruption, restart through the real open/verify path; plus a compile-time unsafe lint", "DESIGN.md §5 C20"),
    chk("C19", "exploration",
        "The real fst-bin map/set commands (argument parsing, Merger, batcher, Sorters, KvBatch, UnionBatch, temp files, mmap) run under a seeded scheduler that owns every thread spawn and channel operation; inputs (incl. the empty key, files without trailing newline, CR at EOF, empty files, the same file listed twice, FIFOs instead of regular files, CRLF line ends, keys with NUL / control bytes / invalid UTF-8 (set) or multi-byte UTF-8 (map), lines longer than 8 KiB and 64 KiB, set files whose first line begins with a UTF-8/UTF-16 byte order mark, a comment sign, a quote or a gzip magic number, keys made of punctuation (# % ; | ' ! ~), values with leading zeros and above 2^53, a stale longer file at the output path) x --keep-tmp-dir x temporary directory on another file system x batch size x fd limit x threads x merge mode x schedule are sampled; a fault-injecting configuration starves file descriptors from a chosen batch on (the command may fail, it must not report success with a wrong result). "
        "Oracles: command returns Ok, output verifies, content equals a multiset-merge model, bytes equal a sorted library build when keys do not repeat, and all outputs for one input and mode are byte-identical across configurations and schedules; no deadlock, bounded steps.",
        "Trusted: shuttle 0.9.3 as coroutine runtime; our bounded-channel shim standing in for crossbeam-channel (rendezvous, capacity 1, disconnect semantics); the multiset-merge model. Real: fst-bin app.rs, cmd/map.rs, cmd/set.rs, merge.rs, util.rs, the fst library, the filesystem (tmpfs), memmap2.",
        "deterministic simulation: seeded thread scheduler (shuttle runtime, own Scheduler) over the real CLI merge pipeline x configuration knobs", "DESIGN.md §5 C19", engine="binsim"),
]

na = [
    ("C02", "pure function of (bytes, probe) on the read side: no schedule, clock, fault or interleaving can change a look-up; deciding it is input generation + model comparison, a different technique family"),
    ("C03", "pure function of (bytes, bounds); the stream's stack is private, single-threaded and fault-free"),
    ("C04", "pure function of (bytes, bounds, automaton); the precision of can_match is itself an input program, exercising it is generation of automata, not simulation"),
    ("C05", "deterministic k-way merge of in-memory ordered streams: 'interleaving' there is data, not schedule"),
    ("C09", "claim about the final artifact alone, decidable only by an independent decoder (translation validation); no intermediate state, fault or schedule enters the statement"),
    ("C10", "pure decoding of foreign bytes; needs an independent reference encoder for versions 1-2, not a fault model (noted in DESIGN.md: Fst::new rejects well-formed 32-35 byte v1/v2 files)"),
    ("C12", "pure function of (key set, cache geometry) compared with an independently minimised automaton"),
    ("C16", "pure function of (bytes, value)"),
    ("C17", "pure function of (query, distance, key) (noted in DESIGN.md: Levenshtein(\"é\",1) misses \"ê\")"),
    ("C18", "statements about small pure state machines, decided by exhaustive enumeration of their states, not by simulation"),
]

import os
if not os.path.exists('/verif/simbin/src/main.rs'):
    checks = [c for c in checks if c['property_id'] != 'C19']

manifest = {
    "version": 1,
    "setup_cmd": "./check setup",
    "hooks": {
        "guard": "burntsushi_fst_verif",
        "enable": "RUSTFLAGS='--cfg burntsushi_fst_verif' (set in /verif/sim/.cargo/config.toml and /verif/simbin/.cargo/config.toml; engines depend on /repo by path and #[path]-include fst-bin sources)",
        "baseline_off_cmd": "cd /repo && cargo test --workspace --no-fail-fast --offline",
        "source_commits": [c.split()[0] for c in hooks_commits],
        "add_only": True,
    },
    "engines": [
        {"name": "fstsim", "path": "/verif/sim", "serves_properties": ["C01", "C06", "C07", "C08", "C11", "C13", "C14", "C15", "C20"],
         "kind_free_text": "Engine A: PRNG-driven simulated file (short writes, EINTR, errors, Ok(0), flush failure, crash, corruption), optional real BufWriter layer, counting global allocator, call-level task scheduler, reference models, ddmin minimiser, explicit JSON replay files"},
        {"name": "libsim", "path": "/verif/libsim", "serves_properties": ["C15"],
         "kind_free_text": "Engine C: the fst library compiled from an instrumented copy (std::sync atomics/Mutex/RwLock/Condvar/Once/mpsc, thread spawn, thread_local! mapped textually to shuttle) so that any shared state inside the library becomes scheduling points of our seeded scheduler; fresh process per world (cold statics), 2-4 simulated threads per execution"},
        {"name": "binsim", "path": "/verif/simbin", "serves_properties": ["C19"],
         "kind_free_text": "Engine B: the real fst-bin merge pipeline (#[path]-included sources) on shuttle coroutines under our own seeded Scheduler, crossbeam-channel replaced by a shim through a dependency rename"},
    ],
    "checks": checks,
    "not_applicable": [{"property_id": p, "reason": r} for p, r in na],
    "notes": "Technique family: deterministic simulation with fault injection. VERIF_SEED (default 1) decides every run; exit 2 = harness error. Known findings: /verif/KNOWN_FINDINGS.txt.",
}
json.dump(manifest, open("/verif/MANIFEST.json", "w"), indent=1)
print("wrote MANIFEST.json with", len(checks), "checks,", len(na), "n/a")
