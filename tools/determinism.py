#!/usr/bin/env python3
"""Determinism proof of the simulators (DESIGN §9).

For every scenario kind the first n run indices are executed in many separate
processes, at several worker counts, and the per-index digests (event logs +
durable bytes + verdicts) are compared line by line. Any difference is a
harness error (exit 2): a simulator that is not a pure function of
(VERIF_SEED, run index, code) can neither replay nor minimise.

usage: determinism.py [--procs K] [--n N]
"""
import subprocess, sys, json, time, os

VERIF = os.environ.get("VERIF_DIR", "/verif")
SIM = f"{VERIF}/target/sim/release/fstsim"
BIN = f"{VERIF}/target/simbin/release/binsim"

def run(cmd):
    r = subprocess.run(cmd, capture_output=True, text=True)
    if r.returncode != 0:
        print("HARNESS ERROR: command failed:", " ".join(cmd), r.stderr[-2000:], file=sys.stderr)
        sys.exit(2)
    return r.stdout

def main():
    procs = 20
    nscale = 1.0
    a = sys.argv[1:]
    while a:
        if a[0] == "--procs":
            procs = int(a[1]); a = a[2:]
        elif a[0] == "--n":
            nscale = float(a[1]); a = a[2:]
        else:
            a = a[1:]
    # (property, indices) — indices chosen so that every scenario kind of the
    # property is inside the range (sweeps come first in each index space)
    plan_a = [("C07", 2500), ("C01", 16500), ("C06", 40000), ("C11", 40), ("C20", 2500),
              ("C08", 2200), ("C15", 2000), ("C13", 10), ("C14", 1)]
    workers = [1, 4, 16, 3, 7]
    report = {}
    t0 = time.time()
    for prop, n in plan_a:
        n = max(1, int(n * nscale))
        ref = None
        k = 0
        for p in range(procs if prop not in ("C13", "C14", "C11") else max(4, procs // 5)):
            w = workers[p % len(workers)]
            out = run([SIM, "digests", prop, str(n), "--workers", str(w), "--seed", "1"])
            k += 1
            if ref is None:
                ref = out
                if len(out.strip().splitlines()) == 0:
                    print(f"HARNESS ERROR: no digests for {prop}", file=sys.stderr); sys.exit(2)
            elif out != ref:
                a_l, b_l = ref.splitlines(), out.splitlines()
                bad = next((x for x, y in zip(a_l, b_l) if x != y), "length differs")
                print(f"HARNESS ERROR: {prop}: process {p} (workers={w}) diverged at '{bad}'", file=sys.stderr)
                sys.exit(2)
        # a second seed must give different digests (the digest is not constant)
        other = run([SIM, "digests", prop, str(min(n, 50)), "--workers", "4", "--seed", "2"])
        if prop not in ("C13", "C14") and other.splitlines()[:50] == ref.splitlines()[:50] and prop != "C06":
            print(f"HARNESS ERROR: {prop}: digests do not depend on the seed", file=sys.stderr); sys.exit(2)
        report[prop] = {"run_indices": len(ref.splitlines()), "processes": k, "worker_counts": sorted(set(workers)), "all_equal": True}
        print(f"{prop}: {len(ref.splitlines())} run indices x {k} processes, worker counts {sorted(set(workers))}: all digests equal")
    if os.path.exists(BIN):
        n = max(1, int(60 * nscale))
        ref = None
        for p in range(max(4, procs // 2)):
            out = run([BIN, "digests", str(n), "--seed", "1"])
            if ref is None:
                ref = out
            elif out != ref:
                print("HARNESS ERROR: C19: engine B diverged between processes", file=sys.stderr); sys.exit(2)
        report["C19"] = {"run_indices": n, "invocations_per_index": 6, "processes": max(4, procs // 2), "all_equal": True}
        print(f"C19: {n} run indices x {max(4, procs // 2)} processes: all digests equal")
    LIB = f"{VERIF}/target/libsim/release/libsim"
    if os.path.exists(LIB):
        n = max(4, int(60 * nscale))
        for i in range(n):
            a1 = json.loads(run([LIB, "child", "1", str(i)]))
            a2 = json.loads(run([LIB, "child", "1", str(i)]))
            if a1["digest"] != a2["digest"] or a1["schedules"] != a2["schedules"]:
                print(f"HARNESS ERROR: C15 threads clause: world {i} differs between two fresh processes", file=sys.stderr); sys.exit(2)
        report["C15-threads"] = {"worlds": n, "fresh_processes_per_world": 2, "all_equal": True}
        print(f"C15 threads clause (engine C): {n} worlds x 2 fresh processes: digests and schedules equal")
    report["wall_s"] = round(time.time() - t0, 1)
    json.dump(report, open(f"{VERIF}/evidence/determinism.json", "w"), indent=1)
    print("determinism proof passed in %.1fs" % (time.time() - t0))

main()
