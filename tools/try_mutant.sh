#!/usr/bin/env bash
# tools/try_mutant.sh <patch.diff> <PROP> [<PROP>...]
#
# Run our quick checks against the repository WITH a patch applied, without
# touching /repo itself: a copy of /repo's working tree gets the patch and is
# bind-mounted over /repo inside a private mount namespace (the checks refer
# to /repo by absolute path). Build output and evidence/replays go to scratch
# directories. Prints one line per property:
#   "<PROP> exit=<rc> <VIOLATION line> | <oracle / observed>"
# With MUTANT_KEEP=<dir>, replay files of reported violations are copied there.
# (MUTANT_INPLACE=1 uses `git -C /repo apply` / `git -C /repo checkout -- .`
# instead, exactly as the final evaluation would.)
# MUTANT_SNAPSHOT=<dir>: run <dir>/check (a frozen copy of /verif made with
# `rsync -a --exclude target --exclude .git /verif/ <dir>/`) instead of
# /verif/check, so that /verif can be edited while a batch is running.
set -u
patch="$(readlink -f "$1")"; shift
id="$$"
out="/tmp/mutant-out-$id"
mkdir -p "$out"
if [ -n "${MUTANT_INPLACE:-}" ]; then
  cd /repo
  git apply --check "$patch" 2>/dev/null || { echo "PATCH DOES NOT APPLY: $patch"; exit 2; }
  git apply "$patch"
  trap 'git -C /repo checkout -- . ; rm -rf "$out"' EXIT
  for p in "$@"; do
    VERIF_OUT_DIR="$out" /verif/check "$p" ${MUTANT_ARGS:-} >"$out/$p.log" 2>&1; rc=$?
    v=$(grep -m1 "^VIOLATION" "$out/$p.log" || true)
    o=$(grep -m1 "oracle\|HARNESS" "$out/$p.log" | head -c 300 || true)
    echo "$p exit=$rc $v | $o"
    if [ -n "${MUTANT_KEEP:-}" ] && [ $rc -eq 1 ]; then r=$(echo "$v" | sed 's/.*replay=//'); [ -f "$r" ] && cp "$r" "$MUTANT_KEEP/"; fi
  done
  exit 0
fi
copy="/tmp/mutant-repo-$id"
tdir="${MUTANT_TARGET:-/tmp/mutant-target}"
mkdir -p "$copy" "$tdir"
rsync -a --exclude target --exclude .git /repo/ "$copy/"
( cd "$copy" && git init -q . >/dev/null 2>&1; git apply "$patch" ) || { echo "PATCH DOES NOT APPLY: $patch"; rm -rf "$copy" "$out"; exit 2; }
# cargo decides freshness by mtime: a file that went BACK to its original
# content (older mtime) after a previous patched copy would not be rebuilt.
# Make every source newer than any earlier build in the shared target dir.
find "$copy" -type f \( -name '*.rs' -o -name '*.toml' \) -exec touch {} +
trap 'rm -rf "$copy" "$out"' EXIT
for p in "$@"; do
  unshare -m bash -c "mount --bind '$copy' /repo && VERIF_OUT_DIR='$out' VERIF_TARGET_DIR='$tdir' ${MUTANT_SNAPSHOT:-/verif}/check $p ${MUTANT_ARGS:-}" >"$out/$p.log" 2>&1
  rc=$?
  v=$(grep -m1 "^VIOLATION" "$out/$p.log" || true)
  o=$(grep -m1 "oracle\|HARNESS" "$out/$p.log" | head -c 300 || true)
  echo "$p exit=$rc $v | $o"
  if [ -n "${MUTANT_KEEP:-}" ] && [ $rc -eq 1 ]; then r=$(echo "$v" | sed 's/.*replay=//'); [ -f "$r" ] && cp "$r" "$MUTANT_KEEP/"; fi
done
