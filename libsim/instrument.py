#!/usr/bin/env python3
"""Make an instrumented copy of the fst LIBRARY for Engine C (libsim).

usage: instrument.py <repo> <dest>

<dest> becomes a cargo package named `fst` whose sources are <repo>/src with
every std synchronisation primitive that shuttle can stand in for mapped,
textually, to the shuttle type of the same name (atomics, Mutex, RwLock,
Condvar, Once, Barrier, mpsc, thread spawn/sleep/yield, thread_local!). On the
pinned tree nothing matches: the library has no shared state at all. A file is
only rewritten when its content changes, so cargo's mtime-based freshness
keeps working.
"""
import os, re, sys

repo, dest = sys.argv[1], sys.argv[2]
SIM = ["atomic", "Mutex", "MutexGuard", "RwLock", "Condvar", "Barrier", "Once", "mpsc"]
THREAD = ["spawn", "sleep", "yield_now", "park", "current", "Builder", "JoinHandle", "scope"]

def split_top(s):
    parts, depth, cur = [], 0, ""
    for c in s:
        if c == "{": depth += 1
        if c == "}": depth -= 1
        if c == "," and depth == 0:
            parts.append(cur.strip()); cur = ""
        else:
            cur += c
    if cur.strip(): parts.append(cur.strip())
    return parts

def rewrite(src):
    out, changed = [], 0
    for line in src.split("\n"):
        l = line
        m = re.match(r"^(\s*)(pub\s+)?use std::sync::\{(.*)\};\s*$", l)
        if m:
            parts = split_top(m.group(3))
            sim = [p for p in parts if re.split(r"[: ]", p)[0] in SIM]
            real = [p for p in parts if p not in sim]
            if sim:
                pre = m.group(1) + (m.group(2) or "")
                l = ""
                if real: l += f"{pre}use std::sync::{{{', '.join(real)}}};\n"
                l += f"{pre}use shuttle::sync::{{{', '.join(sim)}}};"
        for n in SIM:
            l = l.replace(f"std::sync::{n}", f"shuttle::sync::{n}")
        for f in THREAD:
            l = l.replace(f"std::thread::{f}", f"shuttle::thread::{f}")
        l = re.sub(r"(?<![:\w])thread_local!", "shuttle::thread_local!", l)
        l = l.replace("std::shuttle::thread_local!", "shuttle::thread_local!")
        if l != line: changed += 1
        out.append(l)
    return "\n".join(out), changed

def put(path, content):
    os.makedirs(os.path.dirname(path), exist_ok=True)
    if os.path.exists(path) and open(path).read() == content:
        return
    open(path, "w").write(content)

total = 0
keep = set()
for root, _, files in os.walk(os.path.join(repo, "src")):
    for f in files:
        p = os.path.join(root, f)
        rel = os.path.relpath(p, repo)
        txt = open(p, errors="surrogateescape").read()
        if f.endswith(".rs"):
            txt, n = rewrite(txt); total += n
        put(os.path.join(dest, rel), txt); keep.add(rel)
if os.path.exists(os.path.join(repo, "build.rs")):
    put(os.path.join(dest, "build.rs"), open(os.path.join(repo, "build.rs")).read()); keep.add("build.rs")

# The manifest is derived from the repository's own: package, features,
# dependencies, build-dependencies and lib sections are kept (a change may add
# or drop a dependency or the build script); workspace, patch, profile,
# dev-dependency and metadata sections are dropped; shuttle is added.
def derive_manifest(text):
    out, keep_sec, saw_deps = [], True, False
    for line in text.split("\n"):
        m = re.match(r"^\s*\[+([^\]]+)\]+\s*$", line)
        if m:
            sec = m.group(1).strip()
            keep_sec = (sec == "package" or sec == "features" or sec == "lib"
                        or sec == "dependencies" or sec.startswith("dependencies.")
                        or sec == "build-dependencies" or sec.startswith("build-dependencies.")
                        or sec.startswith("target."))
            if sec == "dependencies":
                saw_deps = True
                out.append(line); out.append('shuttle = "0.9.3"'); continue
        if keep_sec:
            out.append(line)
    if not saw_deps:
        out += ["", "[dependencies]", 'shuttle = "0.9.3"']
    return "\n".join(out) + "\n"

put(os.path.join(dest, "Cargo.toml"), derive_manifest(open(os.path.join(repo, "Cargo.toml")).read()))
keep.add("Cargo.toml")
# drop files that no longer exist in the repository
for root, _, files in os.walk(dest):
    if "/target" in root: continue
    for f in files:
        rel = os.path.relpath(os.path.join(root, f), dest)
        if rel not in keep and rel != "Cargo.lock":
            os.remove(os.path.join(root, f))
put(os.path.join(dest, "INSTRUMENTED_LINES"), str(total) + "\n")
print(total)
