//! libsim — Engine C: the threads clause of C15 under schedule exploration.
//!
//! The fst LIBRARY is compiled from an instrumented copy (see
//! ../instrument.py): every std synchronisation primitive shuttle can stand
//! in for is mapped to the shuttle type, so that shared state inside the
//! library — should a change introduce any — consists of scheduling points
//! our seeded scheduler owns. Several simulated threads then build the same
//! accepted sequence through different entry points *as the first thing that
//! happens in a fresh process* (first-use initialisation races need that),
//! and once more when everything is warm. Oracle: all outputs byte-identical,
//! footer == independent CRC-32C, verify() Ok, content == the sequence.
//!
//! On the pinned tree the library has no shared state at all, so thread
//! bodies are atomic and every schedule gives the same bytes trivially; the
//! check exists for what a change may introduce.

mod model;
mod rng;
mod sched;

use std::panic::{catch_unwind, AssertUnwindSafe};
use std::sync::{Arc, Mutex};

use fst::Streamer;
use serde_json::{json, Value};

use rng::{mix, tag_of, Rng};
use sched::{Policy, Rec, Sched, SimScheduler};

type Item = (Vec<u8>, u64);

fn gen_items(rng: &mut Rng) -> Vec<Item> {
    let n = match rng.below(4) {
        0 => rng.urange(0, 2),
        1 => rng.urange(2, 8),
        _ => rng.urange(5, 60),
    };
    let mut keys: std::collections::BTreeSet<Vec<u8>> = std::collections::BTreeSet::new();
    let alphabet: &[u8] = if rng.chance(1, 2) { b"abc" } else { b"ab\x00\xffxyz" };
    let mut guard = 0;
    while keys.len() < n && guard < 1000 {
        guard += 1;
        let l = rng.urange(0, 5);
        keys.insert((0..l).map(|_| *rng.pick(alphabet)).collect());
    }
    let valued = rng.chance(2, 3);
    keys.into_iter()
        .map(|k| {
            let v = if !valued {
                0
            } else if rng.chance(1, 4) {
                *rng.pick(&[0u64, 255, 256, 65535, 65536, u64::MAX])
            } else {
                rng.below(1000)
            };
            (k, v)
        })
        .collect()
}

const ENTRY_NAMES: [&str; 6] = [
    "MapBuilder::memory + insert",
    "Map::from_iter",
    "raw::Builder::new(Vec) + insert + into_inner",
    "MapBuilder::new(Vec) + extend_iter + into_inner",
    "Fst::from_iter_map",
    "raw::Builder::memory + extend_stream(other fst)",
];

/// What one simulated thread does: build, then read its own bytes back.
fn thread_work(entry: usize, items: &[Item]) -> Result<(Vec<u8>, bool, usize), String> {
    let e = |e: fst::Error| format!("{:?}", e);
    let bytes: Vec<u8> = match entry % ENTRY_NAMES.len() {
        0 => {
            let mut b = fst::MapBuilder::memory();
            for (k, v) in items {
                b.insert(k, *v).map_err(e)?;
            }
            b.into_inner().map_err(e)?
        }
        1 => fst::Map::from_iter(items.iter().map(|(k, v)| (k, *v))).map_err(e)?.as_fst().as_bytes().to_vec(),
        2 => {
            let mut b = fst::raw::Builder::new(Vec::new()).map_err(e)?;
            for (k, v) in items {
                b.insert(k, *v).map_err(e)?;
            }
            b.into_inner().map_err(e)?
        }
        3 => {
            let mut b = fst::MapBuilder::new(Vec::new()).map_err(e)?;
            b.extend_iter(items.iter().map(|(k, v)| (k, *v))).map_err(e)?;
            b.into_inner().map_err(e)?
        }
        4 => fst::raw::Fst::from_iter_map(items.iter().map(|(k, v)| (k, *v))).map_err(e)?.into_inner(),
        _ => {
            let src = fst::raw::Fst::from_iter_map(items.iter().map(|(k, v)| (k, *v))).map_err(e)?;
            let mut b = fst::raw::Builder::memory();
            b.extend_stream(src.stream()).map_err(e)?;
            b.into_inner().map_err(e)?
        }
    };
    let f = fst::raw::Fst::new(&bytes[..]).map_err(e)?;
    let verify_ok = f.verify().is_ok();
    let mut n = 0;
    let mut s = f.stream();
    while let Some((k, v)) = s.next() {
        if n >= items.len() || k != &items[n].0[..] || v.value() != items[n].1 {
            return Err(format!("entry {} read back wrong", n));
        }
        n += 1;
    }
    Ok((bytes, verify_ok, n))
}

struct ExecResult {
    outputs: Vec<Result<(Vec<u8>, bool, usize), String>>,
    schedule: Vec<u32>,
    switches: u64,
    died: Option<String>,
}

fn one_execution(k: usize, entries: &[usize], items: &Arc<Vec<Item>>, sched: Sched) -> ExecResult {
    let rec = Arc::new(Mutex::new(Rec::default()));
    let outs: Arc<Mutex<Vec<Option<Result<(Vec<u8>, bool, usize), String>>>>> = Arc::new(Mutex::new(vec![None; k]));
    let scheduler = SimScheduler::new(sched, rec.clone());
    let mut config = shuttle::Config::new();
    config.stack_size = 1 << 20;
    config.failure_persistence = shuttle::FailurePersistence::None;
    config.max_steps = shuttle::MaxSteps::FailAfter(2_000_000);
    config.silence_warnings = true;
    let runner = shuttle::Runner::new(scheduler, config);
    let outs2 = outs.clone();
    let items2 = items.clone();
    let entries2: Vec<usize> = entries.to_vec();
    let r = catch_unwind(AssertUnwindSafe(move || {
        runner.run(move || {
            let mut hs = Vec::new();
            for t in 0..k {
                let items = items2.clone();
                let outs = outs2.clone();
                let entry = entries2[t];
                hs.push(shuttle::thread::spawn(move || {
                    let r = thread_work(entry, &items);
                    outs.lock().unwrap()[t] = Some(r);
                }));
            }
            for h in hs {
                let _ = h.join();
            }
        });
    }));
    let rec = rec.lock().unwrap().clone();
    let outputs = outs.lock().unwrap().iter().map(|o| o.clone().unwrap_or_else(|| Err("thread never finished".into()))).collect();
    ExecResult {
        outputs,
        schedule: rec.choices,
        switches: rec.switches,
        died: r.err().map(|p| {
            if let Some(s) = p.downcast_ref::<&str>() {
                s.to_string()
            } else if let Some(s) = p.downcast_ref::<String>() {
                s.clone()
            } else {
                "panic".into()
            }
        }),
    }
}

fn judge(items: &[Item], entries: &[usize], execs: &[ExecResult]) -> Option<(String, String)> {
    let mut first: Option<(usize, usize, &Vec<u8>)> = None;
    for (x, ex) in execs.iter().enumerate() {
        if let Some(m) = &ex.died {
            let o = if m.contains("deadlock") { "C15.threads.deadlock" } else { "C15.threads.panic" };
            return Some((o.into(), format!("execution {}: {}", x, m)));
        }
        for (t, o) in ex.outputs.iter().enumerate() {
            match o {
                Err(e) => return Some(("C15.threads.build_failed".into(), format!("execution {} thread {} ({}): {}", x, t, ENTRY_NAMES[entries[t] % ENTRY_NAMES.len()], e))),
                Ok((b, vok, n)) => {
                    if !*vok || *n != items.len() {
                        return Some(("C15.threads.output_does_not_verify".into(), format!("execution {} thread {} ({}): verify ok = {}, {} of {} entries", x, t, ENTRY_NAMES[entries[t] % ENTRY_NAMES.len()], vok, n, items.len())));
                    }
                    let nb = b.len();
                    if nb < 36 || model::masked_crc32c(&b[..nb - 4]).to_le_bytes() != b[nb - 4..] {
                        return Some(("C15.threads.footer_is_not_masked_crc32c".into(), format!("execution {} thread {}", x, t)));
                    }
                    match first {
                        None => first = Some((x, t, b)),
                        Some((x0, t0, b0)) => {
                            if b0 != b {
                                return Some((
                                    "C15.threads.bytes_differ_between_threads".into(),
                                    format!(
                                        "execution {} thread {} ({}) and execution {} thread {} ({}) built the same {} entries but the bytes differ ({} vs {} bytes)",
                                        x0, t0, ENTRY_NAMES[entries[t0] % ENTRY_NAMES.len()], x, t, ENTRY_NAMES[entries[t] % ENTRY_NAMES.len()], items.len(), b0.len(), b.len()
                                    ),
                                ));
                            }
                        }
                    }
                }
            }
        }
    }
    None
}

/// One fresh process = one world: a cold execution, then a warm one.
fn child(seed: u64, i: u64, explicit: Option<Vec<Vec<u32>>>) -> Value {
    std::panic::set_hook(Box::new(|_| {}));
    let mut rng = Rng::new(mix(seed, tag_of("C15.threads"), i));
    let k = rng.urange(2, 4);
    let items = Arc::new(gen_items(&mut rng));
    let entries: Vec<usize> = (0..k).map(|_| rng.usize_below(ENTRY_NAMES.len())).collect();
    let mut execs = Vec::new();
    for x in 0..2 {
        let policy = match rng.below(4) {
            0 => Policy::Uniform,
            1 => Policy::Sticky(12),
            2 => Policy::Pct(2),
            _ => Policy::Uniform,
        };
        let sched = match &explicit {
            Some(l) => Sched::Explicit(l.get(x).cloned().unwrap_or_default()),
            None => Sched::Policy { policy, seed: rng.next_u64() },
        };
        execs.push(one_execution(k, &entries, &items, sched));
    }
    let verdict = judge(&items, &entries, &execs);
    let mut d = rng::Digest::new();
    for ex in &execs {
        for c in &ex.schedule {
            d.u64(*c as u64);
        }
        for o in &ex.outputs {
            if let Ok((b, _, _)) = o {
                d.bytes(b);
            }
        }
    }
    json!({
        "i": i,
        "threads": k,
        "entries": entries.iter().map(|e| ENTRY_NAMES[e % ENTRY_NAMES.len()]).collect::<Vec<_>>(),
        "items": items.len(),
        "schedules": execs.iter().map(|e| e.schedule.clone()).collect::<Vec<_>>(),
        "steps": execs.iter().map(|e| e.schedule.len() as u64).sum::<u64>(),
        "switches": execs.iter().map(|e| e.switches).sum::<u64>(),
        "digest": format!("{:016x}", d.finish()),
        "oracle": verdict.as_ref().map(|v| v.0.clone()),
        "observed": verdict.as_ref().map(|v| v.1.clone()),
    })
}

fn env_u64(k: &str) -> Option<u64> {
    std::env::var(k).ok().and_then(|s| s.trim().parse().ok())
}

fn main() {
    let args: Vec<String> = std::env::args().collect();
    let verif_dir = std::env::var("VERIF_DIR").unwrap_or_else(|_| "/verif".into());
    match args.get(1).map(|s| &s[..]) {
        Some("child") => {
            let seed: u64 = args[2].parse().unwrap();
            let i: u64 = args[3].parse().unwrap();
            let explicit = args.get(4).map(|f| {
                let v: Value = serde_json::from_str(&std::fs::read_to_string(f).unwrap()).unwrap();
                v["schedules"]
                    .as_array()
                    .unwrap()
                    .iter()
                    .map(|l| l.as_array().unwrap().iter().map(|x| x.as_u64().unwrap() as u32).collect())
                    .collect()
            });
            println!("{}", child(seed, i, explicit));
        }
        Some("run") => {
            let thorough = args.iter().any(|a| a == "thorough") || std::env::var("VERIF_TIER").ok().as_deref() == Some("thorough");
            let seed = env_u64("VERIF_SEED").unwrap_or(1);
            let scale: f64 = std::env::var("VERIF_SCALE").ok().and_then(|s| s.parse().ok()).unwrap_or(1.0);
            let n = std::cmp::max(4, ((if thorough { 6000.0 } else { 240.0 }) * scale) as u64);
            let exe = std::env::current_exe().unwrap();
            let t0 = std::time::Instant::now();
            let mut results: Vec<Value> = Vec::new();
            let mut next = 0u64;
            let mut running: Vec<(u64, std::process::Child)> = Vec::new();
            let mut timed_out = 0u64;
            while next < n || !running.is_empty() {
                while next < n && running.len() < 16 {
                    let c = std::process::Command::new(&exe)
                        .args(["child", &seed.to_string(), &next.to_string()])
                        .stdout(std::process::Stdio::piped())
                        .stderr(std::process::Stdio::null())
                        .spawn()
                        .expect("spawn child");
                    running.push((next, c));
                    next += 1;
                }
                let (i, mut c) = running.remove(0);
                // a world that does not come back within 60 s is killed and
                // counted as inconclusive: std primitives that have no
                // simulated twin (e.g. OnceLock) can block the single OS
                // thread all simulated tasks share
                let t_child = std::time::Instant::now();
                let mut timed_out_now = false;
                loop {
                    match c.try_wait() {
                        Ok(Some(_)) => break,
                        Ok(None) => {
                            if t_child.elapsed().as_secs() > 60 {
                                let _ = c.kill();
                                timed_out_now = true;
                                break;
                            }
                            std::thread::sleep(std::time::Duration::from_millis(2));
                        }
                        Err(_) => break,
                    }
                }
                if timed_out_now {
                    let _ = c.wait();
                    timed_out += 1;
                    continue;
                }
                let out = c.wait_with_output().expect("wait child");
                match serde_json::from_slice::<Value>(&out.stdout) {
                    Ok(v) if out.status.success() => results.push(v),
                    _ => results.push(json!({"i": i, "oracle": "C15.threads.simulation_process_died", "observed": format!("child {} ended with {:?}", i, out.status), "schedules": [], "steps": 0, "switches": 0, "digest": "0"})),
                }
            }
            results.sort_by_key(|v| v["i"].as_u64().unwrap_or(0));
            let bad = results.iter().find(|v| !v["oracle"].is_null());
            let steps: u64 = results.iter().map(|v| v["steps"].as_u64().unwrap_or(0)).sum();
            let switches: u64 = results.iter().map(|v| v["switches"].as_u64().unwrap_or(0)).sum();
            let mut digests: Vec<&str> = results.iter().filter_map(|v| v["digest"].as_str()).collect();
            digests.sort();
            digests.dedup();
            let instrumented = std::env::var("FST_INST_DIR").ok().and_then(|d| std::fs::read_to_string(format!("{}/INSTRUMENTED_LINES", d)).ok()).map(|s| s.trim().to_string()).unwrap_or_else(|| "unknown".into());
            let summary = json!({
                "fresh_processes": n,
                "executions": 2 * n,
                "distinct_digests": digests.len(),
                "scheduling_steps": steps,
                "context_switches": switches,
                "library_source_lines_changed_by_instrumentation": instrumented,
                "note": "each fresh process runs 2-4 simulated threads that build the same sequence through different entry points cold, then warm; std sync primitives in the library sources are mapped to shuttle at build time (none exist on the pinned tree, so thread bodies are atomic there)",
                "sample": results.get(0),
                "worlds_killed_after_60s_inconclusive": timed_out,
                "violations": bad.is_some() as u64,
                "wall_s": t0.elapsed().as_secs_f64(),
            });
            let _ = std::fs::create_dir_all(format!("{}/evidence", verif_dir));
            std::fs::write(format!("{}/evidence/C15-threads.json", verif_dir), serde_json::to_string_pretty(&summary).unwrap()).expect("write summary");
            match bad {
                None => {
                    println!("C15 threads clause: held on {} executions in {} fresh processes ({} scheduling steps) in {:.1}s", 2 * n, n, steps, t0.elapsed().as_secs_f64());
                }
                Some(v) => {
                    let _ = std::fs::create_dir_all(format!("{}/replays", verif_dir));
                    let path = format!("{}/replays/C15-threads-{}-{}.json", verif_dir, seed, v["i"]);
                    let rep = json!({
                        "property": "C15", "oracle": v["oracle"], "engine": "C", "kind": "library_threads",
                        "seed": seed, "run": v["i"], "schedules": v["schedules"], "observed": v["observed"],
                        "threads": v["threads"], "entries": v["entries"], "log_digest": v["digest"],
                    });
                    std::fs::write(&path, serde_json::to_string_pretty(&rep).unwrap()).expect("write replay");
                    println!("violation in fresh process {} (seed {}): oracle {}", v["i"], seed, v["oracle"]);
                    println!("  observed: {}", v["observed"]);
                    println!("VIOLATION property=C15 replay={}", path);
                    std::process::exit(1);
                }
            }
        }
        Some("replay") => {
            let path = &args[2];
            let v: Value = serde_json::from_str(&std::fs::read_to_string(path).expect("read replay")).expect("json");
            let exe = std::env::current_exe().unwrap();
            let out = std::process::Command::new(&exe)
                .args(["child", &v["seed"].to_string(), &v["run"].to_string(), path])
                .output()
                .expect("spawn child");
            let r: Value = serde_json::from_slice(&out.stdout).unwrap_or(json!({"oracle": "C15.threads.simulation_process_died", "observed": format!("{:?}", out.status)}));
            if r["oracle"].is_null() {
                println!("REPLAY property=C15 file={}: no violation (case holds on this tree)", path);
            } else if r["oracle"] == v["oracle"] {
                println!("REPLAY reproduced: oracle={} digest={} (file: {})", r["oracle"], r["digest"], v["log_digest"]);
                println!("  observed: {}", r["observed"]);
                println!("VIOLATION property=C15 replay={}", path);
                std::process::exit(1);
            } else {
                println!("REPLAY DIVERGED: file says {}, now {}", v["oracle"], r["oracle"]);
                std::process::exit(2);
            }
        }
        _ => {
            eprintln!("usage: libsim run [thorough] | child <seed> <i> [replay-file] | replay <file>");
            std::process::exit(2);
        }
    }
}
