//! One simulated CLI invocation, and the oracles over a set of them.

use std::collections::BTreeMap;
use std::panic::{catch_unwind, AssertUnwindSafe};
use std::path::{Path, PathBuf};
use std::sync::atomic::Ordering;
use std::sync::{Arc, Mutex};

use fst::Streamer;

use crate::rng::Digest;
use crate::sched::{Rec, Sched, SimScheduler};
use crate::verif_seam::{Trace, TRACE};

#[derive(Clone, Copy, Debug, PartialEq, Eq)]
pub enum Mode {
    Set,
    Sum,
    Max,
    Min,
}

impl Mode {
    pub fn name(self) -> &'static str {
        match self {
            Mode::Set => "set",
            Mode::Sum => "map(sum)",
            Mode::Max => "map(--max)",
            Mode::Min => "map(--min)",
        }
    }
    pub fn from_name(s: &str) -> Option<Mode> {
        Some(match s {
            "set" => Mode::Set,
            "map(sum)" => Mode::Sum,
            "map(--max)" => Mode::Max,
            "map(--min)" => Mode::Min,
            _ => return None,
        })
    }
}

#[derive(Clone, Debug, PartialEq, Eq)]
pub struct Input {
    pub mode: Mode,
    /// one vector of rows per input file
    pub files: Vec<Vec<(String, u64)>>,
    /// per file: does its last line end with a newline? (missing entries
    /// mean yes)
    pub trailing_newline: Vec<bool>,
    /// size of a stale file already sitting at the output path (0 = none);
    /// the command is then run with --force
    pub stale_output: usize,
    /// indices of input files that appear once more at the end of the input
    /// list (the same file named twice: its rows count twice); odd positions
    /// spell the path differently (`dir/./name`)
    pub listed_twice: Vec<usize>,
    /// per file: the path is a FIFO fed by another thread instead of a
    /// regular file (missing entries mean no). Not used for a file that is
    /// listed twice, nor in invocations that starve file descriptors (the
    /// feeding thread lives in the same process).
    pub fifo: Vec<bool>,
    /// per file: lines / records end with CR LF instead of LF
    pub crlf: Vec<bool>,
    /// map values are written with leading zeros (`00000000000000000042`)
    pub pad_values: bool,
}

/// Keys are kept as strings in which every char below U+0100 stands for the
/// byte of the same value (so `\u{0}`, `\u{80}` or `\u{ff}` put a NUL byte or
/// invalid UTF-8 into the input file); other chars are written as UTF-8.
pub fn key_bytes(k: &str) -> Vec<u8> {
    let mut out = Vec::with_capacity(k.len());
    for ch in k.chars() {
        if (ch as u32) < 256 {
            out.push(ch as u32 as u8);
        } else {
            let mut b = [0u8; 4];
            out.extend_from_slice(ch.encode_utf8(&mut b).as_bytes());
        }
    }
    out
}
pub fn key_string(b: &[u8]) -> String {
    b.iter().map(|x| *x as char).collect()
}

/// Control characters (NUL included) and the replacement char escaped.
pub fn printable(s: &str) -> String {
    let mut out = String::with_capacity(s.len());
    for c in s.chars() {
        if c == '\n' || c == '\t' {
            out.push(' ');
        } else if c.is_control() || c == '\u{fffd}' {
            out.push_str(&format!("\\x{:02x}", c as u32));
        } else {
            out.push(c);
        }
    }
    out
}

/// A thread that feeds one FIFO input.
pub struct Feeder {
    path: PathBuf,
    handle: Option<std::thread::JoinHandle<()>>,
}

#[derive(Clone, Debug, PartialEq, Eq)]
pub struct RunCfg {
    pub batch_size: u32,
    pub fd_limit: u32,
    pub threads: u32,
    pub sched: Sched,
    /// Some(h): fault-injecting configuration — while the command runs the
    /// process may open only `h` more file descriptors than it already has
    /// (open/create/mmap then fail with EMFILE at some point). The command
    /// may fail; it must never report success with a wrong result.
    pub fd_headroom: Option<u32>,
    /// the starvation starts when the n-th batch (sort or union batch, in
    /// the order the workers begin them; 0 = before the command starts) is
    /// begun, so the failing call can be placed inside a particular batch
    pub fd_from_batch: u32,
    /// 0 = until the command ends; n > 0 = the limit is lifted again when the
    /// n-th batch after `fd_from_batch` begins (a transient shortage)
    pub fd_for_batches: u32,
    /// keep-tmp-dir, and where the temporary directory lives: true = on
    /// another file system than the output (TMPDIR under /tmp or /var/tmp
    /// while the output is on the run's tmpfs), if this machine has one
    pub keep_tmp: bool,
    pub tmp_on_other_fs: bool,
}

#[derive(Clone, Debug, PartialEq, Eq)]
pub struct Case {
    pub input: Input,
    pub runs: Vec<RunCfg>,
}

#[derive(Clone, Debug, PartialEq, Eq)]
pub struct Violation {
    pub oracle: String,
    pub observed: String,
}

pub struct Invocation {
    /// Ok(()) or the error the command returned / the way the execution died
    pub result: Result<(), String>,
    pub died: Option<&'static str>,
    pub output: Option<Vec<u8>>,
    pub rec: Rec,
    pub trace: Trace,
    pub chan_ops: u64,
    pub chan_blocks: u64,
}

impl Input {
    pub fn rows(&self) -> usize {
        self.files.iter().map(|f| f.len()).sum()
    }

    /// The multiset-merge model: distinct keys, value = fold of the
    /// configured merge over ALL values given for the key.
    pub fn model(&self) -> BTreeMap<Vec<u8>, u64> {
        let mut m: BTreeMap<Vec<u8>, u64> = BTreeMap::new();
        let again: Vec<&Vec<(String, u64)>> = self.listed_twice.iter().filter_map(|i| self.files.get(*i)).collect();
        for f in self.files.iter().chain(again.into_iter()) {
            for (k, v) in f {
                let v = if self.mode == Mode::Set { 0 } else { *v };
                m.entry(key_bytes(k))
                    .and_modify(|cur| {
                        *cur = match self.mode {
                            Mode::Set => 0,
                            Mode::Sum => *cur + v,
                            Mode::Max => (*cur).max(v),
                            Mode::Min => (*cur).min(v),
                        }
                    })
                    .or_insert(v);
            }
        }
        m
    }

    pub fn has_repeats(&self) -> bool {
        self.model().len() != self.rows() || self.listed_twice.iter().any(|i| self.files.get(*i).map_or(false, |f| !f.is_empty()))
    }

    fn content(&self, i: usize) -> Vec<u8> {
        let f = &self.files[i];
        let nl: &[u8] = if self.crlf.get(i).copied().unwrap_or(false) { b"\r\n" } else { b"\n" };
        let mut s: Vec<u8> = Vec::new();
        for (k, v) in f {
            s.extend_from_slice(&key_bytes(k));
            if self.mode != Mode::Set {
                if self.pad_values {
                    s.extend_from_slice(format!(",{:020}", v).as_bytes());
                } else {
                    s.extend_from_slice(format!(",{}", v).as_bytes());
                }
            }
            s.extend_from_slice(nl);
        }
        // (a blank last line needs its newline to be a line at all)
        let blank_last = self.mode == Mode::Set && f.last().map(|(k, _)| k.is_empty()).unwrap_or(false);
        if !self.trailing_newline.get(i).copied().unwrap_or(true) && s.ends_with(nl) && !blank_last {
            s.truncate(s.len() - nl.len());
        }
        s
    }

    fn write_files(&self, dir: &Path) -> Vec<PathBuf> {
        self.write_inputs(dir, false).0
    }

    /// Input paths in command-line order, and the threads feeding FIFOs.
    fn write_inputs(&self, dir: &Path, allow_fifo: bool) -> (Vec<PathBuf>, Vec<Feeder>) {
        let mut out = Vec::new();
        let mut feeders = Vec::new();
        for i in 0..self.files.len() {
            let p = dir.join(format!("in{}.txt", i));
            let s = self.content(i);
            let fifo = allow_fifo && self.fifo.get(i).copied().unwrap_or(false) && !self.listed_twice.contains(&i);
            if fifo {
                let c = std::ffi::CString::new(p.to_string_lossy().as_bytes()).expect("harness: path");
                let rc = unsafe { libc::mkfifo(c.as_ptr(), 0o600) };
                assert!(rc == 0, "harness: mkfifo");
                let p2 = p.clone();
                let handle = std::thread::spawn(move || {
                    use std::io::Write;
                    // blocks until the command (or the release below) opens
                    // the other end
                    if let Ok(mut f) = std::fs::OpenOptions::new().write(true).open(&p2) {
                        let _ = f.write_all(&s);
                    }
                });
                feeders.push(Feeder { path: p.clone(), handle: Some(handle) });
            } else {
                std::fs::write(&p, s).expect("harness: write input file");
            }
            out.push(p);
        }
        for (j, i) in self.listed_twice.iter().enumerate() {
            if *i < self.files.len() {
                out.push(if j % 2 == 1 { dir.join(".").join(format!("in{}.txt", i)) } else { dir.join(format!("in{}.txt", i)) });
            }
        }
        (out, feeders)
    }
}

impl Feeder {
    /// Let go of a feeder whose FIFO nobody opened (or a reader stuck in a
    /// second open of it), then wait for the thread.
    fn release(&mut self) {
        use std::os::unix::fs::OpenOptionsExt;
        if let Some(h) = self.handle.take() {
            if !h.is_finished() {
                // A reader end held open lets the writer's open() through
                // whenever the thread gets there (it may not even have
                // started yet), and takes what it writes.
                let r = std::fs::OpenOptions::new().read(true).custom_flags(libc::O_NONBLOCK).open(&self.path);
                let t0 = std::time::Instant::now();
                while !h.is_finished() && t0.elapsed().as_secs() < 30 {
                    std::thread::sleep(std::time::Duration::from_millis(1));
                }
                drop(r);
                if !h.is_finished() {
                    // give up on the thread rather than hang the check
                    return;
                }
            }
            let _ = h.join();
        }
    }
}

fn argv_for(input: &Input, cfg: Option<&RunCfg>, inputs: &[PathBuf], out: &Path, tmp: &Path) -> Vec<String> {
    let mut a: Vec<String> = vec!["fst".into()];
    a.push(if input.mode == Mode::Set { "set".into() } else { "map".into() });
    match input.mode {
        Mode::Max => a.push("--max".into()),
        Mode::Min => a.push("--min".into()),
        _ => {}
    }
    if input.stale_output > 0 {
        a.push("--force".into());
    }
    match cfg {
        None => a.push("--sorted".into()),
        Some(c) => {
            a.extend_from_slice(&[
                "--batch-size".into(),
                c.batch_size.to_string(),
                "--fd-limit".into(),
                c.fd_limit.to_string(),
                "--threads".into(),
                c.threads.to_string(),
            ]);
            // `--tmp-dir` is declared without a value in app.rs, so the
            // temporary directory can only be steered through TMPDIR
            // (env::temp_dir() is what Merger::new reads).
            std::env::set_var("TMPDIR", tmp);
        }
    }
    // clap 2 only accepts `<input>... <output>` when the positionals come
    // before the options
    let mut pos: Vec<String> = inputs.iter().map(|p| p.to_string_lossy().to_string()).collect();
    pos.push(out.to_string_lossy().to_string());
    let opts = a.split_off(2);
    a.extend(pos);
    a.extend(opts);
    a
}

fn run_command(argv: &[String]) -> Result<(), String> {
    let matches = crate::app::app()
        .get_matches_from_safe(argv.iter())
        .map_err(|e| format!("argument error: {}", e))?;
    let r = match matches.subcommand() {
        ("map", Some(m)) => crate::cmd::map::run(m),
        ("set", Some(m)) => crate::cmd::set::run(m),
        _ => return Err("harness: unexpected subcommand".into()),
    };
    r.map_err(|e| format!("{:#}", e))
}

pub fn panic_msg(p: Box<dyn std::any::Any + Send>) -> String {
    if let Some(s) = p.downcast_ref::<&str>() {
        s.to_string()
    } else if let Some(s) = p.downcast_ref::<String>() {
        s.clone()
    } else {
        "<non-string panic>".into()
    }
}

pub const STEP_BUDGET: usize = 200_000;

pub struct FdPlan {
    headroom: u32,
    from_batch: u32,
    for_batches: u32,
    seen: u32,
    saved: Option<libc::rlimit>,
}

pub static FD_PLAN: Mutex<Option<FdPlan>> = Mutex::new(None);

/// Called from the seam's batch trace hooks: start the descriptor
/// starvation when the chosen batch begins.
pub fn fd_fault_tick() {
    if let Ok(mut g) = FD_PLAN.lock() {
        if let Some(p) = g.as_mut() {
            p.seen += 1;
            if p.seen == p.from_batch && p.saved.is_none() {
                p.saved = starve_fds(p.headroom);
            } else if p.for_batches > 0 && p.seen == p.from_batch + p.for_batches {
                if let Some(old) = p.saved.take() {
                    unsafe {
                        libc::setrlimit(libc::RLIMIT_NOFILE, &old);
                    }
                }
            }
        }
    }
}

/// Lower the soft RLIMIT_NOFILE to (descriptors open now + headroom).
/// Returns the previous limit. (The harness is the only place with `unsafe`:
/// two libc calls; the code under test is untouched.)
fn starve_fds(headroom: u32) -> Option<libc::rlimit> {
    let open = std::fs::read_dir("/proc/self/fd").map(|d| d.count()).unwrap_or(16) as u64;
    let mut old = libc::rlimit { rlim_cur: 0, rlim_max: 0 };
    unsafe {
        if libc::getrlimit(libc::RLIMIT_NOFILE, &mut old) != 0 {
            return None;
        }
        // read_dir itself held one descriptor while counting
        let new = libc::rlimit { rlim_cur: std::cmp::min(old.rlim_cur, open - 1 + headroom as u64), rlim_max: old.rlim_max };
        if libc::setrlimit(libc::RLIMIT_NOFILE, &new) != 0 {
            return None;
        }
    }
    Some(old)
}

/// A fresh directory on a file system other than the one `dir` is on (the
/// run directories live on a tmpfs; /tmp and /var/tmp usually do not).
fn other_fs_dir(dir: &Path) -> Option<PathBuf> {
    use std::os::unix::fs::MetadataExt;
    let here = std::fs::metadata(dir).ok()?.dev();
    for base in ["/tmp", "/var/tmp"] {
        if let Ok(m) = std::fs::metadata(base) {
            if m.dev() != here {
                let p = Path::new(base).join(format!("binsim-tmp-{}", std::process::id()));
                let _ = std::fs::remove_dir_all(&p);
                if std::fs::create_dir_all(&p).is_ok() {
                    return Some(p);
                }
            }
        }
    }
    None
}

/// Execute one CLI invocation under the seeded scheduler.
pub fn invoke(input: &Input, cfg: &RunCfg, dir: &Path) -> Invocation {
    let _ = std::fs::remove_dir_all(dir);
    std::fs::create_dir_all(dir.join("tmp")).expect("harness: create run dir");
    let (inputs, mut feeders) = input.write_inputs(dir, cfg.fd_headroom.is_none());
    // If the command got stuck on a FIFO (it opened one twice, say), nothing
    // in the simulation can move: a watchdog lets the stuck open through
    // after a generous wall-clock delay. It only ever acts on a hang.
    let done = Arc::new(std::sync::atomic::AtomicBool::new(false));
    let watchdog = if feeders.is_empty() {
        None
    } else {
        let done = done.clone();
        let paths: Vec<PathBuf> = feeders.iter().map(|f| f.path.clone()).collect();
        Some(std::thread::spawn(move || {
            use std::os::unix::fs::OpenOptionsExt;
            let t0 = std::time::Instant::now();
            while !done.load(Ordering::SeqCst) {
                std::thread::sleep(std::time::Duration::from_millis(5));
                if t0.elapsed().as_secs() >= 20 {
                    for _ in 0..50 {
                        for p in &paths {
                            let w = std::fs::OpenOptions::new().write(true).custom_flags(libc::O_NONBLOCK).open(p);
                            let r = std::fs::OpenOptions::new().read(true).custom_flags(libc::O_NONBLOCK).open(p);
                            std::thread::sleep(std::time::Duration::from_millis(2));
                            drop(w);
                            drop(r);
                        }
                        if done.load(Ordering::SeqCst) {
                            break;
                        }
                    }
                    break;
                }
            }
        }))
    };
    let out = dir.join("out.fst");
    if input.stale_output > 0 {
        // something longer than any FST these inputs can produce
        let junk: Vec<u8> = (0..input.stale_output).map(|i| (i * 31 + 7) as u8).collect();
        std::fs::write(&out, junk).expect("harness: stale output");
    }
    let other_tmp: Option<PathBuf> = if cfg.tmp_on_other_fs { other_fs_dir(dir) } else { None };
    let tmp_dir = other_tmp.clone().unwrap_or_else(|| dir.join("tmp"));
    let mut argv_v = argv_for(input, Some(cfg), &inputs, &out, &tmp_dir);
    if cfg.keep_tmp {
        argv_v.push("--keep-tmp-dir".into());
    }
    let argv = Arc::new(argv_v);
    let rec = Arc::new(Mutex::new(Rec::default()));
    let result: Arc<Mutex<Option<Result<(), String>>>> = Arc::new(Mutex::new(None));
    *TRACE.lock().unwrap() = Some(Trace::default());
    let ops0 = crossbeam_channel::OPS.load(Ordering::Relaxed);
    let blocks0 = crossbeam_channel::BLOCKS.load(Ordering::Relaxed);

    let scheduler = SimScheduler::new(cfg.sched.clone(), rec.clone());
    let mut config = shuttle::Config::new();
    config.stack_size = 1 << 20;
    config.failure_persistence = shuttle::FailurePersistence::None;
    config.max_steps = shuttle::MaxSteps::FailAfter(STEP_BUDGET);
    config.silence_warnings = true;
    let runner = shuttle::Runner::new(scheduler, config);
    let r2 = result.clone();
    let a2 = argv.clone();
    let mut saved: Option<libc::rlimit> = None;
    if let Some(h) = cfg.fd_headroom {
        if cfg.fd_from_batch == 0 {
            saved = starve_fds(h);
        } else {
            *FD_PLAN.lock().unwrap() = Some(FdPlan {
                headroom: h,
                from_batch: cfg.fd_from_batch,
                for_batches: cfg.fd_for_batches,
                seen: 0,
                saved: None,
            });
        }
    }
    let run = catch_unwind(AssertUnwindSafe(move || {
        runner.run(move || {
            let r = run_command(&a2);
            *r2.lock().unwrap() = Some(r);
        });
    }));
    done.store(true, Ordering::SeqCst);
    for f in feeders.iter_mut() {
        f.release();
    }
    if let Some(w) = watchdog {
        let _ = w.join();
    }
    if let Some(p) = FD_PLAN.lock().unwrap().take() {
        if p.saved.is_some() {
            saved = p.saved;
        }
    }
    if let Some(old) = saved {
        unsafe {
            libc::setrlimit(libc::RLIMIT_NOFILE, &old);
        }
    }
    let trace = TRACE.lock().unwrap().take().unwrap_or_default();
    let rec = rec.lock().unwrap().clone();
    let mut died = None;
    let result = match run {
        Ok(()) => match result.lock().unwrap().take() {
            Some(r) => r,
            None => {
                died = Some("no_result");
                Err("the command task never returned".to_string())
            }
        },
        Err(p) if matches!(&*result.lock().unwrap(), Some(Err(_))) => {
            // The command had already returned an error; detached workers
            // then find their channels closed and panic. That noise is the
            // command's own error path, not a separate failure.
            let _ = p;
            result.lock().unwrap().take().unwrap()
        }
        Err(p) => {
            let m = panic_msg(p);
            died = Some(if m.contains("deadlock") {
                "deadlock"
            } else if m.contains("exceeded max_steps") || m.contains("max_steps") {
                "step_budget"
            } else {
                "panic"
            });
            Err(m)
        }
    };
    if let Some(t) = &other_tmp {
        let _ = std::fs::remove_dir_all(t);
    }
    let output = std::fs::read(&out).ok();
    let _ = std::fs::remove_dir_all(dir);
    Invocation {
        result,
        died,
        output,
        rec,
        trace,
        chan_ops: crossbeam_channel::OPS.load(Ordering::Relaxed) - ops0,
        chan_blocks: crossbeam_channel::BLOCKS.load(Ordering::Relaxed) - blocks0,
    }
}

/// The real `--sorted` command on the sorted, merged data (no threads there).
pub fn sorted_build(input: &Input, dir: &Path) -> Result<Vec<u8>, String> {
    let _ = std::fs::remove_dir_all(dir);
    std::fs::create_dir_all(dir).expect("harness: create run dir");
    let model = input.model();
    let sorted = Input {
        mode: input.mode,
        trailing_newline: vec![],
        stale_output: 0,
        listed_twice: vec![],
        fifo: vec![],
        crlf: vec![],
        pad_values: false,
        files: vec![model
            .iter()
            .map(|(k, v)| (key_string(k), *v))
            .collect()],
    };
    let inputs = sorted.write_files(dir);
    let out = dir.join("sorted.fst");
    let argv = argv_for(&sorted, None, &inputs, &out, dir);
    // The sorted path spawns no threads, but it runs inside a (single-task)
    // simulated execution all the same: the instrumented sources may touch a
    // simulated primitive (say, a statistics counter) anywhere.
    let slot: Arc<Mutex<Option<Result<(), String>>>> = Arc::new(Mutex::new(None));
    let slot2 = slot.clone();
    let argv2 = Arc::new(argv);
    let rec = Arc::new(Mutex::new(Rec::default()));
    let scheduler = SimScheduler::new(Sched::Explicit(vec![]), rec);
    let mut config = shuttle::Config::new();
    config.stack_size = 1 << 20;
    config.failure_persistence = shuttle::FailurePersistence::None;
    config.max_steps = shuttle::MaxSteps::FailAfter(STEP_BUDGET);
    config.silence_warnings = true;
    let runner = shuttle::Runner::new(scheduler, config);
    let r = catch_unwind(AssertUnwindSafe(move || {
        runner.run(move || {
            let r = run_command(&argv2);
            *slot2.lock().unwrap() = Some(r);
        });
    }));
    let res = match (r, slot.lock().unwrap().take()) {
        (Ok(()), Some(Ok(()))) => std::fs::read(&out).map_err(|e| format!("{}", e)),
        (_, Some(Err(e))) => Err(e),
        (Err(p), _) => Err(format!("PANIC {}", panic_msg(p))),
        (Ok(()), None) => Err("the sorted command never returned".to_string()),
    };
    let _ = std::fs::remove_dir_all(dir);
    res
}

/// A sorted build of the same data straight through the library.
pub fn library_sorted_build(input: &Input) -> Vec<u8> {
    let model = input.model();
    if input.mode == Mode::Set {
        let mut b = fst::SetBuilder::memory();
        for k in model.keys() {
            b.insert(k).expect("harness: sorted set build");
        }
        b.into_inner().expect("harness: sorted set build")
    } else {
        let mut b = fst::MapBuilder::memory();
        for (k, v) in &model {
            b.insert(k, *v).expect("harness: sorted map build");
        }
        b.into_inner().expect("harness: sorted map build")
    }
}

pub fn read_fst(bytes: &[u8]) -> Result<(Vec<(Vec<u8>, u64)>, bool, String), String> {
    let r = catch_unwind(AssertUnwindSafe(|| -> Result<(Vec<(Vec<u8>, u64)>, bool, String), String> {
        let f = fst::raw::Fst::new(bytes).map_err(|e| format!("{:?}", e))?;
        let v = f.verify();
        let mut items = Vec::new();
        let mut s = f.stream();
        while let Some((k, o)) = s.next() {
            items.push((k.to_vec(), o.value()));
        }
        if f.len() != items.len() {
            return Err(format!("len() = {} but {} entries", f.len(), items.len()));
        }
        Ok((items, v.is_ok(), v.err().map(|e| format!("{:?}", e)).unwrap_or_default()))
    }));
    match r {
        Ok(x) => x,
        Err(p) => Err(format!("PANIC {}", panic_msg(p))),
    }
}

fn show_items(items: &[(Vec<u8>, u64)]) -> String {
    let mut s = String::from("[");
    for (i, (k, v)) in items.iter().enumerate() {
        if i >= 8 {
            s.push_str(&format!(" … {} entries", items.len()));
            break;
        }
        if i > 0 {
            s.push(' ');
        }
        s.push_str(&format!("{}={}", String::from_utf8_lossy(k), v));
    }
    s.push(']');
    s
}

pub struct CaseRun {
    pub invocations: Vec<Invocation>,
    pub violation: Option<Violation>,
    pub digest: u64,
}

fn cfg_str(c: &RunCfg) -> String {
    format!(
        "--batch-size {} --fd-limit {} --threads {}{}",
        c.batch_size,
        c.fd_limit,
        c.threads,
        c.fd_headroom
            .map(|h| format!(" [at most {} more open files from batch {} for {} batches]", h, c.fd_from_batch, c.fd_for_batches))
            .unwrap_or_default()
    )
}

/// Run every (configuration, schedule) of a case and evaluate the oracles.
pub fn run_case(case: &Case, dir: &Path) -> CaseRun {
    // (keys may hold NUL and other control bytes: never print them raw)
    let v = |o: &str, s: String| Some(Violation { oracle: o.to_string(), observed: printable(&s) });
    let model: Vec<(Vec<u8>, u64)> = case.input.model().into_iter().collect();
    let mut invocations = Vec::new();
    let mut violation = None;
    let mut first: Option<(usize, Vec<u8>)> = None;
    let mut d = Digest::new();
    for (i, cfg) in case.runs.iter().enumerate() {
        let inv = invoke(&case.input, cfg, &dir.join("w"));
        d.u64(inv.rec.choices.len() as u64);
        for c in &inv.rec.choices {
            d.u64(*c as u64);
        }
        match &inv.output {
            Some(b) => d.bytes(b),
            None => d.u64(0),
        }
        d.u64(inv.result.is_ok() as u64);
        if violation.is_none() {
            violation = (|| {
                if let Some(kind) = inv.died {
                    let o = match kind {
                        "deadlock" => "C19.deadlock",
                        "step_budget" => "C19.step_budget_exceeded",
                        "no_result" => "C19.command_never_returned",
                        _ => "C19.task_panicked",
                    };
                    return v(o, format!("run {} ({}): {}", i, cfg_str(cfg), inv.result.clone().unwrap_err()));
                }
                if let Err(e) = &inv.result {
                    if cfg.fd_headroom.is_some() {
                        // descriptors were made scarce on purpose: failing is
                        // allowed, succeeding with a wrong result is not
                        return None;
                    }
                    return v("C19.command_failed", format!("run {} ({}): {}", i, cfg_str(cfg), e));
                }
                let bytes = match &inv.output {
                    Some(b) => b,
                    None => return v("C19.output_missing", format!("run {} ({}) returned Ok but wrote no output file", i, cfg_str(cfg))),
                };
                let (items, verify_ok, verify_msg) = match read_fst(bytes) {
                    Ok(x) => x,
                    Err(e) => return v("C19.output_does_not_open", format!("run {} ({}): {}", i, cfg_str(cfg), e)),
                };
                if !verify_ok {
                    return v("C19.output_fails_verify", format!("run {} ({}): {}", i, cfg_str(cfg), verify_msg));
                }
                if items != model {
                    return v(
                        "C19.content_differs_from_merge_model",
                        format!(
                            "{} run {} ({}): output {} but the {} of all values per key is {}",
                            case.input.mode.name(),
                            i,
                            cfg_str(cfg),
                            show_items(&items),
                            match case.input.mode { Mode::Set => "set", Mode::Sum => "sum", Mode::Max => "max", Mode::Min => "min" },
                            show_items(&model)
                        ),
                    );
                }
                match &first {
                    None => {
                        first = Some((i, bytes.clone()));
                    }
                    Some((j, fb)) => {
                        if fb != bytes {
                            return v(
                                "C19.bytes_differ_across_configurations",
                                format!(
                                    "run {} ({}) and run {} ({}) produced different bytes for the same input ({} vs {} bytes)",
                                    j,
                                    cfg_str(&case.runs[*j]),
                                    i,
                                    cfg_str(cfg),
                                    fb.len(),
                                    bytes.len()
                                ),
                            );
                        }
                    }
                }
                None
            })();
        }
        invocations.push(inv);
        if violation.is_some() {
            break;
        }
    }
    // inputs without repeated keys: byte identity with the sorted build
    let cr_keys = case.input.files.iter().any(|f| f.iter().any(|(k, _)| k.contains('\r')));
    // ... first with the library's builder over the sorted data (always
    // possible), then with the command's own `--sorted` mode. `fst set
    // --sorted` stops reading a file at its first blank line, so for set
    // inputs that contain the empty key the library build is the only sorted
    // build of the same data there is.
    if violation.is_none() && !case.input.has_repeats() {
        if let Some((_, fb)) = &first {
            let lb = library_sorted_build(&case.input);
            d.bytes(&lb);
            if &lb != fb {
                violation = v(
                    "C19.bytes_differ_from_sorted_build",
                    format!(
                        "input without repeated keys: unsorted build gives {} bytes, a sorted build of the same data with the library's builder {} bytes, and they differ",
                        fb.len(),
                        lb.len()
                    ),
                );
            }
        }
    }
    let blank_set_key = case.input.mode == Mode::Set && case.input.files.iter().any(|f| f.iter().any(|(k, _)| k.is_empty()));
    if violation.is_none() && !case.input.has_repeats() && !cr_keys && !blank_set_key {
        if let Some((_, fb)) = &first {
            match sorted_build(&case.input, &dir.join("s")) {
                Err(e) => violation = v("C19.sorted_build_failed", e),
                Ok(sb) => {
                    d.bytes(&sb);
                    if &sb != fb {
                        violation = v(
                            "C19.bytes_differ_from_sorted_build",
                            format!(
                                "input without repeated keys: unsorted build gives {} bytes, `--sorted` build of the same data {} bytes, and they differ",
                                fb.len(),
                                sb.len()
                            ),
                        );
                    }
                }
            }
        }
    }
    CaseRun { invocations, violation, digest: d.finish() }
}
