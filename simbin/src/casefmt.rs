//! JSON form of an Engine-B case (DESIGN Appendix B): argv-level
//! configuration, the input files' contents, and the task schedule.

use serde_json::{json, Value};

use crate::sched::{Policy, Sched};
use crate::world::{Case, Input, Mode, RunCfg};

pub fn sched_to(s: &Sched) -> Value {
    match s {
        Sched::Explicit(l) => json!({"task_schedule": l}),
        Sched::Policy { policy, seed } => json!({
            "policy": match policy {
                Policy::Uniform => json!("uniform"),
                Policy::Sticky(k) => json!({"sticky_keep_16": k}),
                Policy::Pct(d) => json!({"pct_change_points": d}),
                Policy::Lowest => json!("lowest_id"),
            },
            "seed": seed.to_string(),
        }),
    }
}

pub fn sched_from(v: &Value) -> Result<Sched, String> {
    if let Some(l) = v.get("task_schedule") {
        let mut out = Vec::new();
        for x in l.as_array().ok_or("task_schedule")? {
            out.push(x.as_u64().ok_or("task id")? as u32);
        }
        return Ok(Sched::Explicit(out));
    }
    let seed: u64 = v["seed"].as_str().ok_or("seed")?.parse().map_err(|_| "seed")?;
    let p = &v["policy"];
    let policy = if p == "uniform" {
        Policy::Uniform
    } else if p == "lowest_id" {
        Policy::Lowest
    } else if let Some(k) = p.get("sticky_keep_16") {
        Policy::Sticky(k.as_u64().ok_or("sticky")? as u8)
    } else if let Some(d) = p.get("pct_change_points") {
        Policy::Pct(d.as_u64().ok_or("pct")? as u8)
    } else {
        return Err(format!("bad policy {}", p));
    };
    Ok(Sched::Policy { policy, seed })
}

pub fn case_to(c: &Case) -> Value {
    json!({
        "command": c.input.mode.name(),
        "trailing_newline": c.input.trailing_newline,
        "stale_output_bytes": c.input.stale_output,
        "input_files_listed_twice": c.input.listed_twice,
        "input_file_is_a_fifo": c.input.fifo,
        "input_file_has_crlf_line_ends": c.input.crlf,
        "values_written_with_leading_zeros": c.input.pad_values,
        "input_files": c.input.files.iter().map(|f| f.iter().map(|(k, v)| json!([k, v])).collect::<Vec<_>>()).collect::<Vec<_>>(),
        "runs": c.runs.iter().map(|r| json!({
            "batch_size": r.batch_size, "fd_limit": r.fd_limit, "threads": r.threads,
            "schedule": sched_to(&r.sched),
            "fd_headroom": r.fd_headroom,
            "fd_starved_from_batch": r.fd_from_batch,
            "fd_starved_for_batches": r.fd_for_batches,
            "keep_tmp_dir": r.keep_tmp,
            "tmp_dir_on_another_file_system": r.tmp_on_other_fs,
        })).collect::<Vec<_>>(),
    })
}

pub fn case_from(v: &Value) -> Result<Case, String> {
    let mode = Mode::from_name(v["command"].as_str().ok_or("command")?).ok_or("bad command")?;
    let mut files = Vec::new();
    for f in v["input_files"].as_array().ok_or("input_files")? {
        let mut rows = Vec::new();
        for r in f.as_array().ok_or("file")? {
            rows.push((r[0].as_str().ok_or("key")?.to_string(), r[1].as_u64().ok_or("value")?));
        }
        files.push(rows);
    }
    let mut runs = Vec::new();
    for r in v["runs"].as_array().ok_or("runs")? {
        runs.push(RunCfg {
            batch_size: r["batch_size"].as_u64().ok_or("batch_size")? as u32,
            fd_limit: r["fd_limit"].as_u64().ok_or("fd_limit")? as u32,
            threads: r["threads"].as_u64().ok_or("threads")? as u32,
            sched: sched_from(&r["schedule"])?,
            fd_headroom: r["fd_headroom"].as_u64().map(|x| x as u32),
            fd_from_batch: r["fd_starved_from_batch"].as_u64().unwrap_or(0) as u32,
            fd_for_batches: r["fd_starved_for_batches"].as_u64().unwrap_or(0) as u32,
            keep_tmp: r["keep_tmp_dir"].as_bool().unwrap_or(false),
            tmp_on_other_fs: r["tmp_dir_on_another_file_system"].as_bool().unwrap_or(false),
        });
    }
    let trailing_newline = v["trailing_newline"]
        .as_array()
        .map(|a| a.iter().map(|x| x.as_bool().unwrap_or(true)).collect())
        .unwrap_or_default();
    let stale_output = v["stale_output_bytes"].as_u64().unwrap_or(0) as usize;
    let listed_twice = v["input_files_listed_twice"].as_array().map(|a| a.iter().filter_map(|x| x.as_u64().map(|y| y as usize)).collect()).unwrap_or_default();
    let fifo = v["input_file_is_a_fifo"].as_array().map(|a| a.iter().map(|x| x.as_bool().unwrap_or(false)).collect()).unwrap_or_default();
    let crlf = v["input_file_has_crlf_line_ends"].as_array().map(|a| a.iter().map(|x| x.as_bool().unwrap_or(false)).collect()).unwrap_or_default();
    let pad_values = v["values_written_with_leading_zeros"].as_bool().unwrap_or(false);
    Ok(Case { input: Input { mode, files, trailing_newline, stale_output, listed_twice, fifo, crlf, pad_values }, runs })
}
