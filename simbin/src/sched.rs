//! The seeded scheduler: decides which task continues at every
//! synchronisation point, records the choice list, replays explicit lists.

use std::collections::HashMap;
use std::sync::{Arc, Mutex};

use shuttle::scheduler::{Schedule, Scheduler, Task, TaskId};

use crate::rng::Rng;

#[derive(Clone, Debug, PartialEq, Eq)]
pub enum Policy {
    /// uniformly random among runnable tasks
    Uniform,
    /// keep running the current task with probability keep/16
    Sticky(u8),
    /// PCT-style: random priorities, `d` priority change points
    Pct(u8),
    /// always the lowest runnable task id (as serial as possible)
    Lowest,
}

#[derive(Clone, Debug, PartialEq, Eq)]
pub enum Sched {
    Policy { policy: Policy, seed: u64 },
    /// the task chosen at every scheduling point; when the list is exhausted
    /// or names a task that is not runnable, keep running the current task,
    /// else the lowest runnable one
    Explicit(Vec<u32>),
}

#[derive(Clone, Debug, Default)]
pub struct Rec {
    pub choices: Vec<u32>,
    pub switches: u64,
    pub fallbacks: u64,
    pub max_runnable: usize,
    pub tasks_seen: usize,
}

pub struct SimScheduler {
    sched: Sched,
    rng: Rng,
    started: bool,
    step: usize,
    prio: HashMap<usize, u64>,
    change_points: Vec<usize>,
    low: u64,
    pub rec: Arc<Mutex<Rec>>,
}

impl SimScheduler {
    pub fn new(sched: Sched, rec: Arc<Mutex<Rec>>) -> SimScheduler {
        let seed = match &sched {
            Sched::Policy { seed, .. } => *seed,
            Sched::Explicit(_) => 0,
        };
        let mut rng = Rng::new(seed);
        let mut change_points = Vec::new();
        if let Sched::Policy { policy: Policy::Pct(d), .. } = &sched {
            for _ in 0..*d {
                change_points.push(rng.usize_below(400));
            }
        }
        SimScheduler {
            sched,
            rng,
            started: false,
            step: 0,
            prio: HashMap::new(),
            change_points,
            low: 0,
            rec,
        }
    }
}

impl Scheduler for SimScheduler {
    fn new_execution(&mut self) -> Option<Schedule> {
        if self.started {
            None
        } else {
            self.started = true;
            Some(Schedule::new(0))
        }
    }

    fn next_task(
        &mut self,
        runnable: &[&Task],
        current: Option<TaskId>,
        _is_yielding: bool,
    ) -> Option<TaskId> {
        let ids: Vec<usize> = runnable.iter().map(|t| usize::from(t.id())).collect();
        let cur: Option<usize> = current.map(usize::from);
        let cur_runnable = cur.map_or(false, |c| ids.contains(&c));
        let step = self.step;
        self.step += 1;
        let mut fallback = false;
        let choice = match &self.sched {
            Sched::Explicit(list) => {
                match list.get(step).map(|&x| x as usize) {
                    Some(x) if ids.contains(&x) => x,
                    _ => {
                        fallback = true;
                        if cur_runnable {
                            cur.unwrap()
                        } else {
                            *ids.iter().min().unwrap()
                        }
                    }
                }
            }
            Sched::Policy { policy, .. } => match policy {
                Policy::Uniform => ids[self.rng.usize_below(ids.len())],
                Policy::Sticky(keep) => {
                    if cur_runnable && self.rng.below(16) < *keep as u64 {
                        cur.unwrap()
                    } else {
                        ids[self.rng.usize_below(ids.len())]
                    }
                }
                Policy::Lowest => *ids.iter().min().unwrap(),
                Policy::Pct(_) => {
                    for &i in &ids {
                        if !self.prio.contains_key(&i) {
                            let p = 1_000_000 + self.rng.below(1_000_000);
                            self.prio.insert(i, p);
                        }
                    }
                    if self.change_points.contains(&step) {
                        if let Some(c) = cur {
                            self.low += 1;
                            self.prio.insert(c, 1000 - self.low.min(999));
                        }
                    }
                    *ids.iter().max_by_key(|i| (self.prio[i], **i)).unwrap()
                }
            },
        };
        let mut rec = self.rec.lock().unwrap();
        if let Some(c) = cur {
            if c != choice {
                rec.switches += 1;
            }
        }
        if fallback {
            rec.fallbacks += 1;
        }
        rec.max_runnable = rec.max_runnable.max(ids.len());
        rec.tasks_seen = rec.tasks_seen.max(ids.iter().max().map(|m| m + 1).unwrap_or(0));
        rec.choices.push(choice as u32);
        Some(TaskId::from(choice))
    }

    fn next_u64(&mut self) -> u64 {
        self.rng.next_u64()
    }
}
