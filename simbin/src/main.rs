//! binsim — Engine B: the REAL fst-bin `map` / `set` commands (argument
//! parsing, Merger, batcher, Sorters, KvBatch, UnionBatch, temp files, mmap)
//! executed on shuttle coroutines under a seeded scheduler that we own.
//!
//! Real: everything included below from /repo/fst-bin/src (through build.rs), the fst
//! library, the filesystem (a per-run tmpfs directory), memmap2.
//! Stubs: `std::thread` -> `shuttle::thread` (through the cfg-guarded seam in
//! merge.rs) and `crossbeam_channel` -> the shim in ./xchan (through a
//! dependency rename; merge.rs is not edited for it).

use anyhow::Error;

// The fst-bin sources are included from OUT_DIR, where build.rs puts an
// instrumented copy of /repo/fst-bin/src (std::sync primitives other than
// Arc mapped to their shuttle twins; identical text on the pinned tree).
mod app {
    include!(concat!(env!("OUT_DIR"), "/fstbin/app.rs"));
}
mod cmd {
    pub mod map {
        include!(concat!(env!("OUT_DIR"), "/fstbin/cmd_map.rs"));
    }
    pub mod set {
        include!(concat!(env!("OUT_DIR"), "/fstbin/cmd_set.rs"));
    }
}
mod merge {
    include!(concat!(env!("OUT_DIR"), "/fstbin/merge.rs"));
}
#[allow(dead_code)]
mod util {
    include!(concat!(env!("OUT_DIR"), "/fstbin/util.rs"));
}
#[path = "../../sim/src/rng.rs"]
#[allow(dead_code)]
mod rng;

mod casefmt;
mod driver;
mod sched;
mod world;

/// The simulator's side of the seam in fst-bin/src/merge.rs.
pub mod verif_seam {
    /// shuttle's thread API, plus the few std items that have no simulated
    /// twin and need none (they do not synchronise)
    pub mod thread {
        pub use shuttle::thread::*;
        pub use std::thread::available_parallelism;
    }

    use std::path::PathBuf;
    use std::sync::Mutex;

    use bstr::BString;

    #[derive(Clone, Debug, Default)]
    pub struct Trace {
        /// (batch index, rows, rows whose key repeats inside the batch)
        pub kv_batches: Vec<(usize, usize, usize)>,
        /// (generation, batch index, input file names)
        pub unions: Vec<(usize, usize, Vec<String>)>,
        /// completion order of batches as seen by the trace calls
        pub order: Vec<String>,
    }

    pub static TRACE: Mutex<Option<Trace>> = Mutex::new(None);

    pub fn on_kv_batch(index: usize, kvs: &[(BString, u64)]) {
        crate::world::fd_fault_tick();
        let mut keys: Vec<&BString> = kvs.iter().map(|kv| &kv.0).collect();
        keys.sort();
        let mut dups = 0;
        for w in keys.windows(2) {
            if w[0] == w[1] {
                dups += 1;
            }
        }
        if let Some(t) = TRACE.lock().unwrap().as_mut() {
            t.kv_batches.push((index, kvs.len(), dups));
            t.order.push(format!("b{}", index));
        }
    }

    pub fn on_union_batch(gen: usize, index: usize, fsts: &[PathBuf]) {
        crate::world::fd_fault_tick();
        let mut names: Vec<String> = fsts
            .iter()
            .map(|p| p.file_name().map(|n| n.to_string_lossy().to_string()).unwrap_or_default())
            .collect();
        names.sort();
        if let Some(t) = TRACE.lock().unwrap().as_mut() {
            t.unions.push((gen, index, names));
            t.order.push(format!("u{}.{}", gen, index));
        }
    }
}

fn main() {
    let args: Vec<String> = std::env::args().collect();
    std::process::exit(driver::main(args));
}
