//! Batch driver of Engine B. shuttle executions are single-threaded, so the
//! parent starts one worker PROCESS per core, each taking the run indices
//! i = w (mod W); a run is a pure function of (VERIF_SEED, i), so results do
//! not depend on W. A worker that dies abnormally (SIGBUS from a truncated
//! mmap, abort, ...) is reported as a violation with the case that was in
//! flight.

use std::collections::{BTreeMap, BTreeSet};
use std::path::{Path, PathBuf};
use std::time::Instant;

use serde_json::{json, Value};

use crate::casefmt::{case_from, case_to};
use crate::rng::{mix, tag_of, Digest, Rng};
use crate::sched::{Policy, Sched};
use crate::world::{run_case, Case, Input, Mode, RunCfg, Violation};

fn harness_error(msg: String) -> ! {
    eprintln!("HARNESS ERROR: {}", msg);
    std::process::exit(2);
}

fn env_u64(k: &str) -> Option<u64> {
    std::env::var(k).ok().and_then(|s| s.trim().parse().ok())
}

#[derive(Clone, Debug)]
struct Cfg {
    seed: u64,
    thorough: bool,
    workers: usize,
    scale: f64,
    verif_dir: String,
}

fn cfg_from(args: &[String]) -> Cfg {
    let mut c = Cfg {
        seed: env_u64("VERIF_SEED").unwrap_or(1),
        thorough: std::env::var("VERIF_TIER").ok().as_deref() == Some("thorough"),
        workers: env_u64("VERIF_WORKERS").unwrap_or(16) as usize,
        scale: std::env::var("VERIF_SCALE").ok().and_then(|s| s.parse().ok()).unwrap_or(1.0),
        verif_dir: std::env::var("VERIF_DIR").unwrap_or_else(|_| "/verif".into()),
    };
    let mut i = 0;
    while i < args.len() {
        match &args[i][..] {
            "--tier" => {
                i += 1;
                c.thorough = args.get(i).map(|s| &s[..]) == Some("thorough");
            }
            "--workers" => {
                i += 1;
                c.workers = args[i].parse().unwrap_or(16);
            }
            "--seed" => {
                i += 1;
                c.seed = args[i].parse().unwrap_or(1);
            }
            "--scale" => {
                i += 1;
                c.scale = args[i].parse().unwrap_or(1.0);
            }
            _ => {}
        }
        i += 1;
    }
    c
}

fn sizes(c: &Cfg) -> (u64, usize) {
    // (inputs, (configuration, schedule) pairs per input)
    let (n, p) = if c.thorough { (20_000u64, 200usize) } else { (1_200, 40) };
    (std::cmp::max(1, (n as f64 * c.scale) as u64), p)
}

fn gen_key(rng: &mut Rng, alphabet: &[char], maxlen: usize) -> String {
    let l = rng.urange(1, maxlen);
    (0..l).map(|_| *rng.pick(alphabet)).collect()
}

pub fn gen_case(seed: u64, idx: u64, pairs: usize) -> Case {
    let mut rng = Rng::new(mix(seed, tag_of("C19"), idx));
    let mode = *rng.pick(&[Mode::Set, Mode::Sum, Mode::Max, Mode::Min, Mode::Sum, Mode::Min]);
    let nfiles = rng.urange(1, 3);
    // one input in thirty is large enough for a batch of more than 4096
    // entries (code paths gated on the size of a batch), over a tiny key
    // universe that contains keys differing only in trailing NUL bytes
    let large = rng.chance(1, 30);
    let rows = if large {
        rng.urange(4100, 5000)
    } else {
        match rng.below(8) {
            0 => 0,
            1 => rng.urange(1, 3),
            2 | 3 => rng.urange(2, 12),
            _ => rng.urange(5, 60),
        }
    };
    let unique = rng.chance(1, 4);
    let alphabet: Vec<char> = match rng.below(6) {
        // punctuation that other tools read as comments, separators or
        // quoting but that is plain data in a line and in an unquoted CSV field
        5 => "#a%;|'!~".chars().collect(),
        0 => "ab".chars().collect(),
        1 => "abc".chars().collect(),
        2 => "abcde-_ .".chars().collect(),
        3 => "xyzXYZ019".chars().collect(),
        // bytes that are not text: NUL, control bytes and, for `fst set`,
        // invalid UTF-8 (chars below U+0100 stand for single bytes). `fst map`
        // reads its rows as CSV text and refuses invalid UTF-8 with a clean
        // error, so map inputs get multi-byte UTF-8 instead.
        _ if mode == Mode::Set => vec!['\0', '\u{1}', '\u{7f}', '\u{80}', '\u{c3}', '\u{ff}', 'a', '\t'],
        _ => vec!['\0', '\u{1}', '\u{7f}', '\u{101}', '\u{20ac}', 'a', '\t'],
    };
    // one key much longer than any reader buffer (8 KiB, 64 KiB)
    let long_key = if rng.chance(1, 12) { Some(*rng.pick(&[8191usize, 8192, 8193, 65_536, 70_001])) } else { None };
    let unique = unique && !large;
    let alphabet: Vec<char> = if large { vec!['a', 'b', '\0'] } else { alphabet };
    let maxlen = if large { 4 } else if unique { 6 } else { *rng.pick(&[1usize, 2, 2, 3]) };
    let with_empty_key = rng.chance(1, 3);
    let big_values = mode != Mode::Set && rng.chance(1, 6) && !large;
    let mut files: Vec<Vec<(String, u64)>> = vec![Vec::new(); nfiles];
    let mut seen: BTreeSet<String> = BTreeSet::new();
    let mut guard = 0;
    let mut made = 0;
    while made < rows && guard < rows * 50 + 50 {
        guard += 1;
        let mut k = gen_key(&mut rng, &alphabet, maxlen);
        // a CSV field or line must survive as is: no leading/trailing blank
        // trimming happens in the reader, but an all-blank key is avoided
        if k.trim().is_empty() {
            k = "k".to_string();
        }
        // the empty byte string is a key like any other: a blank line for
        // `fst set`, an empty first field for `fst map`
        if with_empty_key && rng.chance(1, 6) {
            k = String::new();
        }
        if let Some(l) = long_key {
            if made == 0 {
                let c = *rng.pick(&alphabet);
                let tail = k.clone();
                k = std::iter::repeat(c).take(l).collect();
                k.push_str(&tail);
            }
        }
        if unique && !seen.insert(k.clone()) {
            continue;
        }
        let v = match rng.below(if big_values { 3 } else { 6 }) {
            0 => 0,
            1 => *rng.pick(&[1u64, 255, 256, 65535, 65536, (1 << 40) - 1]),
            // values no f64 can hold; the largest ones only where merging
            // cannot overflow (max / min), sums stay below 2^63
            2 if big_values && mode != Mode::Sum => *rng.pick(&[(1u64 << 53) + 1, (1 << 63) - 1, 1 << 63, u64::MAX - 1, u64::MAX]),
            2 if big_values => *rng.pick(&[(1u64 << 53) + 1, (1 << 56) + 3, (1 << 56) - 1]),
            _ => rng.below(1000),
        };
        let f = rng.usize_below(nfiles);
        files[f].push((k, if mode == Mode::Set { 0 } else { v }));
        made += 1;
    }
    // a file need not end with a newline (its last line is a line all the same)
    let trailing_newline: Vec<bool> = (0..nfiles).map(|_| !rng.chance(1, 3)).collect();
    // a set input whose last line has no newline and ends in a carriage
    // return: without a following LF the CR belongs to the key
    if mode == Mode::Set && rng.chance(1, 12) {
        if let Some(fi) = (0..nfiles).rev().find(|&i| !files[i].is_empty()) {
            if !trailing_newline[fi] {
                let last = files[fi].len() - 1;
                files[fi][last].0.push('\r');
            }
        }
    }
    // `fst set` takes lines as byte strings: a first line that begins with
    // what some tools treat as file metadata (a UTF-8 or UTF-16 byte order
    // mark, a comment sign, a quote, a gzip magic number) is a key like any
    // other, at the head of a file as anywhere else
    if mode == Mode::Set && rng.chance(1, 8) {
        let head = *rng.pick(&["\u{ef}\u{bb}\u{bf}", "\u{ef}\u{bb}\u{bf}", "\u{ff}\u{fe}", "\u{fe}\u{ff}", "#", "\"", "\u{1f}\u{8b}", "%"]);
        let whole = rng.chance(1, 4);
        for fi in 0..nfiles {
            if !files[fi].is_empty() && (fi == 0 || rng.chance(1, 2)) {
                let old = files[fi][0].0.clone();
                files[fi][0].0 = if whole { head.to_string() } else { format!("{}{}", head, old) };
            }
        }
    }
    // an older, longer file may already sit at the output path
    let stale_output = if rng.chance(1, 4) { 4096 + rng.usize_below(4096) } else { 0 };
    // the same file named twice on the command line (its rows count twice),
    // and inputs that are FIFOs instead of regular files
    let mut listed_twice: Vec<usize> = Vec::new();
    if rng.chance(1, 6) {
        for _ in 0..rng.urange(1, 2) {
            listed_twice.push(rng.usize_below(nfiles));
        }
    }
    let fifo: Vec<bool> = if rng.chance(1, 5) { (0..nfiles).map(|_| rng.chance(1, 2)).collect() } else { vec![] };
    let crlf: Vec<bool> = if rng.chance(1, 6) { (0..nfiles).map(|_| rng.chance(2, 3)).collect() } else { vec![] };
    let pad_values = mode != Mode::Set && rng.chance(1, 8);
    let input = Input { mode, files, trailing_newline, stale_output, listed_twice, fifo, crlf, pad_values };
    let total = input.rows() as u32;
    let mut runs = Vec::new();
    for _ in 0..pairs {
        let policy = match rng.below(8) {
            0 => Policy::Lowest,
            1 | 2 => Policy::Uniform,
            3 => Policy::Sticky(8),
            4 => Policy::Sticky(13),
            5 => Policy::Sticky(15),
            _ => Policy::Pct(rng.urange(1, 4) as u8),
        };
        runs.push(RunCfg {
            batch_size: if total > 1000 {
                // (thousands of one-row batches would only burn the step budget)
                *rng.pick(&[total + 1, total + 1, 4096, 4097, 2048, total / 2])
            } else {
                match rng.below(4) {
                    0 => 1,
                    1 => total + 1,
                    _ => 1 + rng.below(total as u64 + 1) as u32,
                }
            },
            fd_limit: rng.urange(2, 6) as u32,
            threads: *rng.pick(&[1u32, 1, 2, 2, 3, 3, 4, 5, 6, 8, 12, 16]),
            sched: Sched::Policy { policy, seed: rng.next_u64() },
            fd_headroom: if rng.chance(1, 8) { Some(*rng.pick(&[0u32, 1, 1, 2, 3, 4, 6])) } else { None },
            fd_from_batch: if rng.chance(1, 3) { 0 } else { 1 + rng.below(2 * total as u64 + 2) as u32 },
            fd_for_batches: *rng.pick(&[0u32, 1, 1, 2, 3]),
            keep_tmp: rng.chance(1, 10),
            tmp_on_other_fs: rng.chance(1, 10),
        });
    }
    Case { input, runs }
}

#[derive(Default)]
struct WStats {
    invocations: u64,
    cases: u64,
    steps: u64,
    switches: u64,
    chan_ops: u64,
    chan_blocks: u64,
    nontrivial: Vec<u64>,
    schedules: Vec<u64>,
    groupings: Vec<u64>,
    orders: Vec<u64>,
    counters: BTreeMap<String, u64>,
    samples: Vec<Value>,
    found: Option<(u64, Case, Violation)>,
    case_digests: Vec<(u64, u64)>,
}

fn bump(m: &mut BTreeMap<String, u64>, k: &str, n: u64) {
    if n > 0 {
        *m.entry(k.to_string()).or_insert(0) += n;
    }
}

/// Make every schedule of the case explicit from what was recorded.
fn explicit(case: &Case, run: &crate::world::CaseRun) -> Case {
    let mut c = case.clone();
    for (i, inv) in run.invocations.iter().enumerate() {
        c.runs[i].sched = Sched::Explicit(inv.rec.choices.clone());
    }
    // only the runs that were executed belong to the failing case
    c.runs.truncate(run.invocations.len());
    c
}

fn account(st: &mut WStats, idx: u64, case: &Case, run: &crate::world::CaseRun) {
    st.cases += 1;
    let mut input_d = Digest::new();
    input_d.str(&case_to(&Case { input: case.input.clone(), runs: vec![] }).to_string());
    if case.input.files.iter().any(|f| f.iter().any(|(k, _)| k.is_empty())) {
        bump(&mut st.counters, "input.contains_the_empty_key", 1);
    }
    if !case.input.listed_twice.is_empty() {
        bump(&mut st.counters, "input.same_file_listed_twice", 1);
    }
    bump(&mut st.counters, "knob.keep_tmp_dir_invocations", case.runs.iter().filter(|r| r.keep_tmp).count() as u64);
    bump(&mut st.counters, "knob.tmp_dir_on_another_file_system_invocations", case.runs.iter().filter(|r| r.tmp_on_other_fs).count() as u64);
    if case.input.mode == Mode::Set
        && case.input.files.iter().any(|f| f.first().map(|r| r.0.starts_with("\u{ef}\u{bb}\u{bf}")).unwrap_or(false))
    {
        bump(&mut st.counters, "input.first_line_begins_with_a_byte_order_mark", 1);
    }
    if case.input.mode != Mode::Set && case.input.files.iter().any(|f| f.iter().any(|r| r.0.starts_with('#'))) {
        bump(&mut st.counters, "input.map_row_begins_with_a_comment_sign", 1);
    }
    if case.input.crlf.iter().any(|b| *b) {
        bump(&mut st.counters, "input.crlf_line_ends", 1);
    }
    if case.input.rows() > 4096 {
        bump(&mut st.counters, "input.more_than_4096_rows", 1);
    }
    if case.input.files.iter().any(|f| f.iter().any(|(k, _)| k.chars().any(|c| (c as u32) >= 0x80 || c == '\0'))) {
        bump(&mut st.counters, "input.keys_with_nul_or_invalid_utf8", 1);
    }
    if case.input.files.iter().any(|f| f.iter().any(|(k, _)| k.chars().count() > 8000)) {
        bump(&mut st.counters, "input.line_longer_than_8KiB", 1);
    }
    if case.input.pad_values {
        bump(&mut st.counters, "input.values_with_leading_zeros", 1);
    }
    if case.input.files.iter().any(|f| f.iter().any(|(_, v)| *v > (1 << 53))) {
        bump(&mut st.counters, "input.values_above_2pow53", 1);
    }
    if case.input.fifo.iter().enumerate().any(|(i, b)| *b && !case.input.listed_twice.contains(&i)) {
        bump(&mut st.counters, "input.fifo_instead_of_regular_file", 1);
    }
    if case.input.trailing_newline.iter().any(|b| !*b) {
        bump(&mut st.counters, "input.file_without_trailing_newline", 1);
    }
    if case.input.stale_output > 0 {
        bump(&mut st.counters, "input.stale_longer_file_at_output_path", 1);
    }
    if case.input.files.iter().any(|f| f.iter().any(|(k, _)| k.contains('\r'))) {
        bump(&mut st.counters, "input.key_ending_in_CR_at_EOF", 1);
    }
    let input_digest = input_d.finish();
    for (i, inv) in run.invocations.iter().enumerate() {
        st.invocations += 1;
        st.steps += inv.rec.choices.len() as u64;
        st.switches += inv.rec.switches;
        st.chan_ops += inv.chan_ops;
        st.chan_blocks += inv.chan_blocks;
        let cfg = &case.runs[i];
        if cfg.fd_headroom.is_some() {
            bump(&mut st.counters, "sched.fd_starved_invocations", 1);
            bump(&mut st.counters, if inv.result.is_ok() { "probe.fd_starved_run_succeeded" } else { "probe.fd_starved_run_failed_cleanly" }, 1);
        }
        let mut d = Digest::new();
        d.u64(input_digest);
        d.u64(cfg.batch_size as u64);
        d.u64(cfg.fd_limit as u64);
        d.u64(cfg.threads as u64);
        let mut sd = Digest::new();
        for c in &inv.rec.choices {
            d.u64(*c as u64);
            sd.u64(*c as u64);
        }
        st.schedules.push(sd.finish());
        if inv.rec.switches > 0 {
            st.nontrivial.push(d.finish());
        }
        let mut gd = Digest::new();
        let mut unions = inv.trace.unions.clone();
        unions.sort();
        for (g, _i, names) in &unions {
            gd.u64(*g as u64);
            for n in names {
                gd.str(n);
            }
            gd.u64(0xfefe);
        }
        gd.u64(input_digest ^ (cfg.batch_size as u64) << 32);
        st.groupings.push(gd.finish());
        let mut od = Digest::new();
        for o in &inv.trace.order {
            od.str(o);
        }
        st.orders.push(od.finish());
        let dup_in_batch: usize = inv.trace.kv_batches.iter().map(|b| b.2).sum();
        bump(&mut st.counters, "probe.duplicate_keys_met_inside_a_batch", dup_in_batch as u64);
        bump(&mut st.counters, "probe.union_batches", inv.trace.unions.len() as u64);
        bump(
            &mut st.counters,
            "probe.single_leftover_fst_re_unioned",
            inv.trace.unions.iter().filter(|u| u.2.len() == 1).count() as u64,
        );
        bump(
            &mut st.counters,
            "probe.more_than_one_union_generation",
            (inv.trace.unions.iter().map(|u| u.0).max().unwrap_or(0) > 0) as u64,
        );
        bump(&mut st.counters, "probe.kv_batches", inv.trace.kv_batches.len() as u64);
        bump(&mut st.counters, "probe.empty_input_invocations", (case.input.rows() == 0) as u64);
        bump(&mut st.counters, "sched.max_runnable_ge_4", (inv.rec.max_runnable >= 4) as u64);
        bump(&mut st.counters, &format!("mode.{}", case.input.mode.name()), 1);
    }
    if case.input.has_repeats() {
        bump(&mut st.counters, "input.with_repeated_keys", 1);
    } else {
        bump(&mut st.counters, "input.without_repeated_keys_sorted_build_compared", 1);
    }
    st.case_digests.push((idx, run.digest));
    if st.samples.len() < 2 && !run.invocations.is_empty() {
        let inv = &run.invocations[0];
        st.samples.push(json!({
            "run_index": idx,
            "command": case.input.mode.name(),
            "input_files": case_to(case)["input_files"],
            "first_run": {"batch_size": case.runs[0].batch_size, "fd_limit": case.runs[0].fd_limit, "threads": case.runs[0].threads,
                          "task_schedule_prefix": inv.rec.choices.iter().take(60).collect::<Vec<_>>(),
                          "schedule_length": inv.rec.choices.len(), "context_switches": inv.rec.switches,
                          "union_batches": inv.trace.unions.iter().map(|u| json!({"gen": u.0, "index": u.1, "inputs": u.2})).collect::<Vec<_>>(),
                          "completion_order": inv.trace.order},
            "configurations_run": run.invocations.len(),
            "outcome": match &run.violation { None => "held".to_string(), Some(v) => format!("VIOLATED {}", v.oracle) },
        }));
    }
}

fn scratch_root() -> PathBuf {
    let base = if Path::new("/dev/shm").is_dir() { "/dev/shm" } else { "/tmp" };
    PathBuf::from(format!("{}/binsim-{}", base, std::process::id()))
}

fn worker(args: &[String]) -> i32 {
    // worker <w> <W> <n> <pairs> <result-file> <inflight-file> [cfg args]
    let w: u64 = args[0].parse().unwrap();
    let nw: u64 = args[1].parse().unwrap();
    let n: u64 = args[2].parse().unwrap();
    let pairs: usize = args[3].parse().unwrap();
    let result_file = &args[4];
    let inflight = &args[5];
    let cfg = cfg_from(&args[6..]);
    std::panic::set_hook(Box::new(|_| {}));
    let root = scratch_root();
    let mut st = WStats::default();
    let mut i = w;
    while i < n {
        let case = gen_case(cfg.seed, i, pairs);
        let _ = std::fs::write(
            inflight,
            json!({"run": i, "case": case_to(&case)}).to_string(),
        );
        let run = run_case(&case, &root);
        account(&mut st, i, &case, &run);
        if let Some(v) = run.violation.clone() {
            st.found = Some((i, explicit(&case, &run), v));
            break;
        }
        i += nw;
    }
    let _ = std::fs::remove_dir_all(&root);
    let _ = std::fs::remove_file(inflight);
    let out = json!({
        "invocations": st.invocations, "cases": st.cases, "steps": st.steps, "switches": st.switches,
        "chan_ops": st.chan_ops, "chan_blocks": st.chan_blocks,
        "nontrivial": st.nontrivial, "schedules": st.schedules, "groupings": st.groupings, "orders": st.orders,
        "counters": st.counters, "samples": st.samples,
        "case_digests": st.case_digests,
        "found": st.found.as_ref().map(|(i, c, v)| json!({"run": i, "case": case_to(c), "oracle": v.oracle, "observed": v.observed})),
    });
    if std::fs::write(result_file, out.to_string()).is_err() {
        return 2;
    }
    0
}

fn distinct(mut v: Vec<u64>) -> u64 {
    v.sort_unstable();
    v.dedup();
    v.len() as u64
}

fn u64s(v: &Value) -> Vec<u64> {
    v.as_array().map(|a| a.iter().filter_map(|x| x.as_u64()).collect()).unwrap_or_default()
}

fn load_known(verif_dir: &str) -> Vec<(String, String)> {
    let mut out = Vec::new();
    if let Ok(s) = std::fs::read_to_string(format!("{}/KNOWN_FINDINGS.txt", verif_dir)) {
        for line in s.lines() {
            if let Some(rest) = line.trim().strip_prefix("finding:") {
                let mut prop = "";
                let mut oracle = "";
                for tok in rest.split_whitespace() {
                    if let Some(x) = tok.strip_prefix("property=") {
                        prop = x;
                    }
                    if let Some(x) = tok.strip_prefix("oracle=") {
                        oracle = x;
                    }
                }
                if prop == "C19" && !oracle.is_empty() {
                    out.push((oracle.to_string(), rest.trim().to_string()));
                }
            }
        }
    }
    out
}

/// Greedy minimisation; runs in a child process so that a crash of the code
/// under test cannot take the parent down.
fn minimise(case: &Case, oracle: &str, root: &Path) -> (Case, u64) {
    let execs = std::cell::Cell::new(0u64);
    let fails = |c: &Case| -> bool {
        execs.set(execs.get() + 1);
        if execs.get() > 3000 {
            return false;
        }
        match run_case(c, root).violation {
            Some(v) => v.oracle == oracle,
            None => false,
        }
    };
    let mut cur = case.clone();
    loop {
        let before = cur.clone();
        // fewer runs: keep the last (failing) one, try dropping the others
        let mut i = 0;
        while cur.runs.len() > 1 && i < cur.runs.len() {
            let mut c = cur.clone();
            c.runs.remove(i);
            if fails(&c) {
                cur = c;
            } else {
                i += 1;
            }
        }
        // fewer rows
        for f in 0..cur.input.files.len() {
            let mut chunk = std::cmp::max(1, cur.input.files[f].len() / 2);
            loop {
                let mut i = 0;
                while i < cur.input.files[f].len() {
                    let mut c = cur.clone();
                    let end = std::cmp::min(i + chunk, c.input.files[f].len());
                    c.input.files[f].drain(i..end);
                    if fails(&c) {
                        cur = c;
                    } else {
                        i += chunk;
                    }
                }
                if chunk == 1 {
                    break;
                }
                chunk /= 2;
            }
        }
        // plain inputs first: no file listed twice, no FIFO
        if !cur.input.listed_twice.is_empty() {
            let mut c = cur.clone();
            c.input.listed_twice.clear();
            if fails(&c) {
                cur = c;
            }
        }
        if cur.input.fifo.iter().any(|b| *b) {
            let mut c = cur.clone();
            c.input.fifo.clear();
            if fails(&c) {
                cur = c;
            }
        }
        if cur.input.crlf.iter().any(|b| *b) {
            let mut c = cur.clone();
            c.input.crlf.clear();
            if fails(&c) {
                cur = c;
            }
        }
        if cur.input.pad_values {
            let mut c = cur.clone();
            c.input.pad_values = false;
            if fails(&c) {
                cur = c;
            }
        }
        // fewer files
        let mut f = 0;
        while cur.input.files.len() > 1 && f < cur.input.files.len() {
            let mut c = cur.clone();
            if !c.input.listed_twice.is_empty() || c.input.fifo.iter().any(|b| *b) || c.input.crlf.iter().any(|b| *b) {
                break; // indices refer to files: keep the file list as it is
            }
            let rows = c.input.files.remove(f);
            if f < c.input.trailing_newline.len() {
                c.input.trailing_newline.remove(f);
            }
            c.input.files[0].extend(rows);
            if fails(&c) {
                cur = c;
            } else {
                f += 1;
            }
        }
        if cur.input.stale_output > 0 {
            let mut c = cur.clone();
            c.input.stale_output = 0;
            if fails(&c) {
                cur = c;
            }
        }
        // every file ends with a newline again, if the failure allows it
        if cur.input.trailing_newline.iter().any(|b| !*b) {
            let mut c = cur.clone();
            c.input.trailing_newline.clear();
            if fails(&c) {
                cur = c;
            }
        }
        // simpler keys and values
        for f in 0..cur.input.files.len() {
            for r in 0..cur.input.files[f].len() {
                let (k, v) = cur.input.files[f][r].clone();
                let mut cands: Vec<(String, u64)> = Vec::new();
                if k.chars().count() > 1 {
                    cands.push((k.chars().take(1).collect(), v));
                }
                if k != "a" {
                    cands.push(("a".to_string(), v));
                }
                if v > 1 {
                    cands.push((k.clone(), 1));
                    cands.push((k.clone(), v / 2));
                }
                for cand in cands {
                    let mut c = cur.clone();
                    c.input.files[f][r] = cand;
                    if fails(&c) {
                        cur = c;
                        break;
                    }
                }
            }
        }
        // simpler knobs and schedules
        for i in 0..cur.runs.len() {
            if cur.runs[i].fd_headroom.is_some() {
                let mut c = cur.clone();
                c.runs[i].fd_headroom = None;
                if fails(&c) {
                    cur = c;
                }
            }
            if cur.runs[i].keep_tmp || cur.runs[i].tmp_on_other_fs {
                let mut c = cur.clone();
                c.runs[i].keep_tmp = false;
                c.runs[i].tmp_on_other_fs = false;
                if fails(&c) {
                    cur = c;
                }
            }
            for (t, b, fd) in [(1u32, cur.runs[i].batch_size, cur.runs[i].fd_limit), (cur.runs[i].threads, cur.runs[i].batch_size, 2), (cur.runs[i].threads, 1, cur.runs[i].fd_limit)] {
                let mut c = cur.clone();
                c.runs[i].threads = t;
                c.runs[i].batch_size = b;
                c.runs[i].fd_limit = fd;
                if c != cur && fails(&c) {
                    cur = c;
                }
            }
            while cur.runs[i].threads > 1 {
                let mut c = cur.clone();
                c.runs[i].threads -= 1;
                if fails(&c) {
                    cur = c;
                } else {
                    break;
                }
            }
            // "prefer keep running the current task": an empty explicit list
            let mut c = cur.clone();
            c.runs[i].sched = Sched::Explicit(vec![]);
            if c != cur && fails(&c) {
                cur = c;
            } else if let Sched::Explicit(list) = cur.runs[i].sched.clone() {
                // shorten the explicit list from the back
                let mut len = list.len();
                while len > 0 {
                    let nl = len / 2;
                    let mut c = cur.clone();
                    c.runs[i].sched = Sched::Explicit(list[..nl].to_vec());
                    if fails(&c) {
                        cur = c;
                        len = nl;
                    } else {
                        break;
                    }
                }
            }
        }
        if cur == before || execs.get() > 3000 {
            break;
        }
    }
    // make the remaining schedules explicit again (fallback choices included)
    let run = run_case(&cur, root);
    let cur = if run.violation.as_ref().map(|v| v.oracle == oracle).unwrap_or(false) {
        explicit(&cur, &run)
    } else {
        cur
    };
    (cur, execs.get())
}

fn write_replay(cfg: &Cfg, idx: u64, case: &Case, v: &Violation, digest: u64, minimised: bool, execs: u64, original: Option<&Value>) -> String {
    let dir = format!("{}/replays", cfg.verif_dir);
    let _ = std::fs::create_dir_all(&dir);
    let path = format!("{}/C19-{}-{}.json", dir, cfg.seed, idx);
    let val = json!({
        "property": "C19", "oracle": v.oracle, "engine": "B", "kind": "cli_merge",
        "seed": cfg.seed, "run": idx, "minimised": minimised, "minimiser_executions": execs,
        "case": case_to(case), "log_digest": format!("{:016x}", digest), "observed": v.observed,
        "original_case": original,
    });
    if std::fs::write(&path, serde_json::to_string_pretty(&val).unwrap()).is_err() {
        harness_error(format!("cannot write {}", path));
    }
    path
}

fn replay(path: &str) -> i32 {
    let s = std::fs::read_to_string(path).unwrap_or_else(|e| harness_error(format!("{}: {}", path, e)));
    let v: Value = serde_json::from_str(&s).unwrap_or_else(|e| harness_error(format!("{}: {}", path, e)));
    let case = case_from(&v["case"]).unwrap_or_else(|e| harness_error(format!("bad case: {}", e)));
    let oracle = v["oracle"].as_str().unwrap_or("");
    let digest = v["log_digest"].as_str().unwrap_or("");
    std::panic::set_hook(Box::new(|_| {}));
    let root = scratch_root();
    let run = run_case(&case, &root);
    let _ = std::fs::remove_dir_all(&root);
    let got = format!("{:016x}", run.digest);
    match run.violation {
        None => {
            println!("REPLAY property=C19 file={}: no violation (case holds on this tree) digest={}", path, got);
            0
        }
        Some(vi) => {
            if vi.oracle == oracle {
                if got == digest {
                    println!("REPLAY reproduced exactly: oracle={} digest={}", vi.oracle, got);
                } else {
                    println!("REPLAY reproduced oracle={} but log digest differs (file {}, now {}): the code under test changed since the file was written", vi.oracle, digest, got);
                }
                println!("  observed: {}", vi.observed);
                println!("VIOLATION property=C19 replay={}", path);
                1
            } else {
                println!("REPLAY DIVERGED: file says oracle={}, now oracle={} ({})", oracle, vi.oracle, vi.observed);
                2
            }
        }
    }
}

fn run_parent(args: &[String]) -> i32 {
    let cfg = cfg_from(args);
    let (n, pairs) = sizes(&cfg);
    let t0 = Instant::now();
    println!(
        "binsim: property=C19 tier={} VERIF_SEED={} worker processes={} inputs={} (configuration, schedule) pairs per input={}",
        if cfg.thorough { "thorough" } else { "quick" },
        cfg.seed,
        cfg.workers,
        n,
        pairs
    );
    let exe = std::env::current_exe().expect("current_exe");
    let root = scratch_root();
    let _ = std::fs::create_dir_all(&root);
    let nw = std::cmp::max(1, std::cmp::min(cfg.workers as u64, n));
    let mut children = Vec::new();
    for w in 0..nw {
        let rf = root.join(format!("result-{}.json", w));
        let inf = root.join(format!("inflight-{}.json", w));
        let child = std::process::Command::new(&exe)
            .arg("worker")
            .args([w.to_string(), nw.to_string(), n.to_string(), pairs.to_string()])
            .arg(&rf)
            .arg(&inf)
            .args(["--seed", &cfg.seed.to_string()])
            .env("VERIF_DIR", &cfg.verif_dir)
            .stdout(std::process::Stdio::null())
            .stderr(std::process::Stdio::null())
            .spawn()
            .unwrap_or_else(|e| harness_error(format!("spawn worker: {}", e)));
        children.push((w, child, rf, inf));
    }
    let mut invocations = 0u64;
    let mut cases = 0u64;
    let mut steps = 0u64;
    let mut switches = 0u64;
    let mut chan_ops = 0u64;
    let mut chan_blocks = 0u64;
    let mut nontrivial = Vec::new();
    let mut schedules = Vec::new();
    let mut groupings = Vec::new();
    let mut orders = Vec::new();
    let mut counters: BTreeMap<String, u64> = BTreeMap::new();
    let mut samples: Vec<Value> = Vec::new();
    // (run index, case json, oracle, observed, died abnormally)
    let mut found: Vec<(u64, Value, String, String, bool)> = Vec::new();
    for (w, mut child, rf, inf) in children {
        let status = child.wait().unwrap_or_else(|e| harness_error(format!("wait: {}", e)));
        if !status.success() {
            // abnormal death of the simulation child while a run was in flight
            match std::fs::read_to_string(&inf).ok().and_then(|s| serde_json::from_str::<Value>(&s).ok()) {
                Some(v) => {
                    found.push((
                        v["run"].as_u64().unwrap_or(0),
                        v["case"].clone(),
                        "C19.simulation_process_died".into(),
                        format!("worker process {} ended with {:?} while this case was in flight", w, status),
                        true,
                    ));
                }
                None => harness_error(format!("worker {} failed ({:?}) with no case in flight", w, status)),
            }
            continue;
        }
        let v: Value = std::fs::read_to_string(&rf)
            .ok()
            .and_then(|s| serde_json::from_str(&s).ok())
            .unwrap_or_else(|| harness_error(format!("worker {} left no result", w)));
        invocations += v["invocations"].as_u64().unwrap_or(0);
        cases += v["cases"].as_u64().unwrap_or(0);
        steps += v["steps"].as_u64().unwrap_or(0);
        switches += v["switches"].as_u64().unwrap_or(0);
        chan_ops += v["chan_ops"].as_u64().unwrap_or(0);
        chan_blocks += v["chan_blocks"].as_u64().unwrap_or(0);
        nontrivial.extend(u64s(&v["nontrivial"]));
        schedules.extend(u64s(&v["schedules"]));
        groupings.extend(u64s(&v["groupings"]));
        orders.extend(u64s(&v["orders"]));
        if let Some(m) = v["counters"].as_object() {
            for (k, n) in m {
                *counters.entry(k.clone()).or_insert(0) += n.as_u64().unwrap_or(0);
            }
        }
        if let Some(a) = v["samples"].as_array() {
            samples.extend(a.iter().cloned());
        }
        if !v["found"].is_null() {
            let f = &v["found"];
            found.push((
                f["run"].as_u64().unwrap_or(0),
                f["case"].clone(),
                f["oracle"].as_str().unwrap_or("").to_string(),
                f["observed"].as_str().unwrap_or("").to_string(),
                false,
            ));
        }
    }
    samples.sort_by_key(|s| s["run_index"].as_u64().unwrap_or(0));
    samples.truncate(4);
    found.sort_by_key(|f| f.0);
    let known = load_known(&cfg.verif_dir);
    let mut code = 0;
    let mut known_hits: BTreeMap<String, u64> = BTreeMap::new();
    for (idx, casev, oracle, observed, died) in &found {
        if let Some((_, line)) = known.iter().find(|(o, _)| o == oracle) {
            *known_hits.entry(line.clone()).or_insert(0) += 1;
            continue;
        }
        // a fresh violation: minimise in a child process, then report
        let case = case_from(casev).unwrap_or_else(|e| harness_error(format!("bad case from worker: {}", e)));
        let v = Violation { oracle: oracle.clone(), observed: observed.clone() };
        let mut path = write_replay(&cfg, *idx, &case, &v, 0, false, 0, None);
        if !*died {
            let minp = root.join("min-in.json");
            let mino = root.join("min-out.json");
            let _ = std::fs::write(&minp, json!({"case": casev, "oracle": oracle}).to_string());
            let st = std::process::Command::new(&exe)
                .arg("minimise")
                .arg(&minp)
                .arg(&mino)
                .stdout(std::process::Stdio::null())
                .stderr(std::process::Stdio::null())
                .status();
            if let (Ok(s), Ok(txt)) = (st, std::fs::read_to_string(&mino)) {
                if s.success() {
                    if let Ok(mv) = serde_json::from_str::<Value>(&txt) {
                        if let Ok(mc) = case_from(&mv["case"]) {
                            let v2 = Violation {
                                oracle: oracle.clone(),
                                observed: mv["observed"].as_str().unwrap_or(observed).to_string(),
                            };
                            let d = u64::from_str_radix(mv["log_digest"].as_str().unwrap_or("0"), 16).unwrap_or(0);
                            path = write_replay(&cfg, *idx, &mc, &v2, d, true, mv["execs"].as_u64().unwrap_or(0), Some(casev));
                            println!("violation at run index {} (seed {}): oracle {}", idx, cfg.seed, oracle);
                            println!("  observed: {}", v2.observed);
                            println!("  minimised with {} executions; replay with: ./check replay {}", mv["execs"], path);
                        }
                    }
                }
            }
        } else {
            println!("violation at run index {} (seed {}): {}", idx, cfg.seed, observed);
        }
        println!("VIOLATION property=C19 replay={}", path);
        code = 1;
        break;
    }
    for (line, n) in &known_hits {
        println!("KNOWN-FINDING: {} (hit in {} worker processes)", line, n);
    }
    let wall = t0.elapsed().as_secs_f64();
    let dn = distinct(nontrivial);
    let ev = json!({
        "property_id": "C19",
        "tier": if cfg.thorough { "thorough" } else { "quick" },
        "seed": cfg.seed,
        "level": "exploration",
        "coverage": {
            "evaluations": invocations,
            "distinct_nontrivial": dn,
            "rule": "one run index = one drawn input (1-3 files, 0-60 rows, keys from a small alphabet so repeats meet inside a batch, across batches and across files; command set / map sum / --max / --min) executed under many (batch size, fd limit, threads, schedule policy + seed) pairs; every pair is one simulated invocation of the real command. Non-trivial = at least one context switch between tasks happened; distinct = distinct digest of (input, configuration, complete task-choice list).",
            "samples": samples,
            "exhaustive": false,
            "inputs": cases,
            "simulated_invocations_per_hour": if wall > 0.0 { (invocations as f64 / wall * 3600.0) as u64 } else { 0 },
            "logical_steps_simulated": steps,
            "simulated_time_note": "no clock or timer in fst-bin; simulated time = scheduling steps",
            "fault_kinds_fired": {
                "sched.context_switches": switches,
                "sched.channel_operations": chan_ops,
                "sched.blocked_on_channel": chan_blocks,
            },
            "distinct_task_schedules": distinct(schedules),
            "distinct_union_groupings": distinct(groupings),
            "distinct_batch_completion_orders": distinct(orders),
            "probes_hit": counters,
            "components_real": ["fst-bin app.rs (clap argument parsing)", "fst-bin cmd/map.rs and cmd/set.rs (mode selection, sorted and unsorted paths)", "fst-bin merge.rs (Merger, batcher, Sorters, KvBatch, UnionBatch)", "fst-bin util.rs (ConcatCsv, ConcatLines, mmap_fst)", "the fst library (builders, union, readers, verify)", "filesystem on tmpfs, tempfile, memmap2, csv"],
            "components_stub": ["std::thread -> shuttle::thread (coroutines on one OS thread; our SimScheduler picks the task at every synchronisation point)", "crossbeam_channel -> /verif/simbin/xchan (bounded MPMC channel on shuttle Mutex+Condvar: rendezvous for capacity 0, disconnect on last drop)", "std::sync::{atomic, Mutex, RwLock, Condvar, Barrier, Once, mpsc} -> shuttle::sync twins by build-time textual substitution in the included fst-bin sources (no effect on the pinned tree, which uses std::sync::Arc only; makes every atomic load/store of a changed tree a scheduling point)"],
            "worker_processes": nw,
            "fst_bin_sources_changed_by_instrumentation": env!("BINSIM_INSTRUMENTED_FILES"),
            "known_findings_hit": known_hits,
            "step_budget_per_invocation": crate::world::STEP_BUDGET,
        },
        "assumptions": [
            "sampling, not proof: a clean batch is evidence over the explored inputs, configurations and schedules only",
            "inputs are well-formed (keys, the empty key included, without CR/LF/quote/comma, values small enough that a sum cannot overflow u64, fd-limit >= 2): the command's own error path is outside C19",
            "pre-emption happens at synchronisation points (thread spawn/exit, channel operations, mutex/condvar inside the channel shim); file operations between two such points are atomic in the simulation",
        ],
        "wall_s": (wall * 1000.0).round() / 1000.0,
        "violations": code,
    });
    let _ = std::fs::create_dir_all(format!("{}/evidence", cfg.verif_dir));
    if std::fs::write(format!("{}/evidence/C19.json", cfg.verif_dir), serde_json::to_string_pretty(&ev).unwrap()).is_err() {
        harness_error("cannot write evidence".into());
    }
    let _ = std::fs::remove_dir_all(&root);
    if code == 0 {
        println!(
            "C19 {}: held on {} simulated invocations ({} inputs, {} distinct non-trivial, {} distinct schedules, {} distinct groupings) in {:.1}s",
            if cfg.thorough { "thorough" } else { "quick" },
            invocations, cases, dn, ev["coverage"]["distinct_task_schedules"], ev["coverage"]["distinct_union_groupings"], wall
        );
    }
    code
}

pub fn main(args: Vec<String>) -> i32 {
    if args.len() < 2 {
        eprintln!("usage: binsim run C19 [--tier quick|thorough] | replay <file> | digests <n>");
        return 2;
    }
    match &args[1][..] {
        "run" => run_parent(&args[3.min(args.len())..]),
        "worker" => worker(&args[2..]),
        "replay" => replay(&args[2]),
        "minimise" => {
            std::panic::set_hook(Box::new(|_| {}));
            let v: Value = serde_json::from_str(&std::fs::read_to_string(&args[2]).unwrap()).unwrap();
            let case = case_from(&v["case"]).unwrap();
            let oracle = v["oracle"].as_str().unwrap().to_string();
            let root = scratch_root();
            let (mc, execs) = minimise(&case, &oracle, &root);
            let run = run_case(&mc, &root);
            let _ = std::fs::remove_dir_all(&root);
            let out = json!({
                "case": case_to(&mc), "execs": execs, "log_digest": format!("{:016x}", run.digest),
                "observed": run.violation.as_ref().map(|v| v.observed.clone()),
                "oracle": run.violation.as_ref().map(|v| v.oracle.clone()),
            });
            if run.violation.as_ref().map(|v| v.oracle != oracle).unwrap_or(true) {
                return 3;
            }
            std::fs::write(&args[3], out.to_string()).unwrap();
            0
        }
        "digests" => {
            // per-run-index digests for the determinism proof
            let n: u64 = args.get(2).and_then(|s| s.parse().ok()).unwrap_or(50);
            let cfg = cfg_from(&args[3.min(args.len())..]);
            std::panic::set_hook(Box::new(|_| {}));
            let root = scratch_root();
            for i in 0..n {
                let case = gen_case(cfg.seed, i, 6);
                let run = run_case(&case, &root);
                println!("{} {:016x}", i, run.digest);
            }
            let _ = std::fs::remove_dir_all(&root);
            0
        }
        _ => 2,
    }
}
