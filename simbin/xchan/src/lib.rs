//! A stand-in for the part of `crossbeam-channel` that fst-bin's merge
//! pipeline uses, built on shuttle's Mutex and Condvar so that every channel
//! operation is a scheduling point the simulator owns.
//!
//! Semantics kept: `bounded(0)` is a rendezvous channel (a send completes
//! only once a receiver is committed to taking the message), `bounded(n)`
//! buffers n messages, senders and receivers are cloneable, the channel
//! disconnects when the last sender or the last receiver is dropped, and a
//! receiver can be iterated until disconnection.

use std::collections::VecDeque;
use std::fmt;
use std::sync::atomic::{AtomicU64, Ordering};

use shuttle::sync::{Arc, Condvar, Mutex};

/// Operations performed on any channel (reach measure for the evidence).
pub static OPS: AtomicU64 = AtomicU64::new(0);
/// Times a sender or receiver had to block.
pub static BLOCKS: AtomicU64 = AtomicU64::new(0);

struct State<T> {
    queue: VecDeque<T>,
    cap: usize,
    senders: usize,
    receivers: usize,
    /// receivers currently blocked waiting for a message
    waiting: usize,
}

struct Chan<T> {
    st: Mutex<State<T>>,
    /// receivers block here (woken by a send or by the last sender leaving)
    cv_recv: Condvar,
    /// senders block here (woken by a receive, by a receiver committing to
    /// wait, or by the last receiver leaving)
    cv_send: Condvar,
}

pub struct Sender<T> {
    ch: Arc<Chan<T>>,
}

pub struct Receiver<T> {
    ch: Arc<Chan<T>>,
}

pub struct SendError<T>(pub T);

impl<T> fmt::Debug for SendError<T> {
    fn fmt(&self, f: &mut fmt::Formatter<'_>) -> fmt::Result {
        write!(f, "SendError(..)")
    }
}

impl<T> fmt::Display for SendError<T> {
    fn fmt(&self, f: &mut fmt::Formatter<'_>) -> fmt::Result {
        write!(f, "sending on a disconnected channel")
    }
}

#[derive(Debug, PartialEq, Eq, Clone, Copy)]
pub struct RecvError;

impl fmt::Display for RecvError {
    fn fmt(&self, f: &mut fmt::Formatter<'_>) -> fmt::Result {
        write!(f, "receiving on an empty and disconnected channel")
    }
}

/// A channel without a capacity limit (sends never block).
pub fn unbounded<T>() -> (Sender<T>, Receiver<T>) {
    bounded(usize::MAX / 4)
}

#[derive(Debug, PartialEq, Eq, Clone, Copy)]
pub enum TryRecvError {
    Empty,
    Disconnected,
}

impl fmt::Display for TryRecvError {
    fn fmt(&self, f: &mut fmt::Formatter<'_>) -> fmt::Result {
        match self {
            TryRecvError::Empty => write!(f, "receiving on an empty channel"),
            TryRecvError::Disconnected => write!(f, "receiving on an empty and disconnected channel"),
        }
    }
}

pub enum TrySendError<T> {
    Full(T),
    Disconnected(T),
}

impl<T> fmt::Debug for TrySendError<T> {
    fn fmt(&self, f: &mut fmt::Formatter<'_>) -> fmt::Result {
        match self {
            TrySendError::Full(_) => write!(f, "Full(..)"),
            TrySendError::Disconnected(_) => write!(f, "Disconnected(..)"),
        }
    }
}

impl<T> fmt::Display for TrySendError<T> {
    fn fmt(&self, f: &mut fmt::Formatter<'_>) -> fmt::Result {
        match self {
            TrySendError::Full(_) => write!(f, "sending on a full channel"),
            TrySendError::Disconnected(_) => write!(f, "sending on a disconnected channel"),
        }
    }
}

impl<T> std::error::Error for SendError<T> {}
impl std::error::Error for RecvError {}
impl std::error::Error for TryRecvError {}
impl<T> std::error::Error for TrySendError<T> {}

pub fn bounded<T>(cap: usize) -> (Sender<T>, Receiver<T>) {
    let ch = Arc::new(Chan {
        st: Mutex::new(State {
            queue: VecDeque::new(),
            cap,
            senders: 1,
            receivers: 1,
            waiting: 0,
        }),
        cv_recv: Condvar::new(),
        cv_send: Condvar::new(),
    });
    (Sender { ch: ch.clone() }, Receiver { ch })
}

impl<T> Sender<T> {
    pub fn send(&self, msg: T) -> Result<(), SendError<T>> {
        OPS.fetch_add(1, Ordering::Relaxed);
        let mut st = self.ch.st.lock().unwrap();
        loop {
            if st.receivers == 0 {
                return Err(SendError(msg));
            }
            if st.queue.len() < st.cap.saturating_add(st.waiting) {
                st.queue.push_back(msg);
                self.ch.cv_recv.notify_all();
                return Ok(());
            }
            BLOCKS.fetch_add(1, Ordering::Relaxed);
            st = self.ch.cv_send.wait(st).unwrap();
        }
    }
}

impl<T> Sender<T> {
    /// Non-blocking send (a rendezvous channel accepts it only if a receiver
    /// is already committed to taking a message).
    pub fn try_send(&self, msg: T) -> Result<(), TrySendError<T>> {
        OPS.fetch_add(1, Ordering::Relaxed);
        let mut st = self.ch.st.lock().unwrap();
        if st.receivers == 0 {
            return Err(TrySendError::Disconnected(msg));
        }
        if st.queue.len() < st.cap.saturating_add(st.waiting) {
            st.queue.push_back(msg);
            self.ch.cv_recv.notify_all();
            Ok(())
        } else {
            Err(TrySendError::Full(msg))
        }
    }
    pub fn len(&self) -> usize {
        self.ch.st.lock().unwrap().queue.len()
    }
    pub fn is_empty(&self) -> bool {
        self.len() == 0
    }
    pub fn capacity(&self) -> Option<usize> {
        let c = self.ch.st.lock().unwrap().cap;
        if c >= usize::MAX / 4 {
            None
        } else {
            Some(c)
        }
    }
}

impl<T> Receiver<T> {
    /// Non-blocking receive.
    pub fn try_recv(&self) -> Result<T, TryRecvError> {
        OPS.fetch_add(1, Ordering::Relaxed);
        let mut st = self.ch.st.lock().unwrap();
        if let Some(x) = st.queue.pop_front() {
            self.ch.cv_send.notify_all();
            return Ok(x);
        }
        if st.senders == 0 {
            Err(TryRecvError::Disconnected)
        } else {
            Err(TryRecvError::Empty)
        }
    }
    pub fn len(&self) -> usize {
        self.ch.st.lock().unwrap().queue.len()
    }
    pub fn is_empty(&self) -> bool {
        self.len() == 0
    }
    pub fn try_iter(&self) -> TryIter<'_, T> {
        TryIter { rx: self }
    }

    pub fn recv(&self) -> Result<T, RecvError> {
        OPS.fetch_add(1, Ordering::Relaxed);
        let mut st = self.ch.st.lock().unwrap();
        loop {
            if let Some(x) = st.queue.pop_front() {
                self.ch.cv_send.notify_all();
                return Ok(x);
            }
            if st.senders == 0 {
                return Err(RecvError);
            }
            st.waiting += 1;
            // a sender may be waiting for a committed receiver
            self.ch.cv_send.notify_all();
            BLOCKS.fetch_add(1, Ordering::Relaxed);
            st = self.ch.cv_recv.wait(st).unwrap();
            st.waiting -= 1;
        }
    }

    pub fn iter(&self) -> Iter<'_, T> {
        Iter { rx: self }
    }
}

impl<T> Clone for Sender<T> {
    fn clone(&self) -> Sender<T> {
        self.ch.st.lock().unwrap().senders += 1;
        Sender { ch: self.ch.clone() }
    }
}

impl<T> Clone for Receiver<T> {
    fn clone(&self) -> Receiver<T> {
        self.ch.st.lock().unwrap().receivers += 1;
        Receiver { ch: self.ch.clone() }
    }
}

impl<T> Drop for Sender<T> {
    fn drop(&mut self) {
        // While a task unwinds (a worker that found its channel closed after
        // the command had already failed) the scheduler must not be entered
        // again: a second panic inside a destructor would abort the process.
        if std::thread::panicking() {
            return;
        }
        if let Ok(mut st) = self.ch.st.lock() {
            st.senders -= 1;
            if st.senders == 0 {
                self.ch.cv_recv.notify_all();
            }
        }
    }
}

impl<T> Drop for Receiver<T> {
    fn drop(&mut self) {
        if std::thread::panicking() {
            return;
        }
        if let Ok(mut st) = self.ch.st.lock() {
            st.receivers -= 1;
            if st.receivers == 0 {
                self.ch.cv_send.notify_all();
            }
        }
    }
}

pub struct Iter<'a, T> {
    rx: &'a Receiver<T>,
}

impl<'a, T> Iterator for Iter<'a, T> {
    type Item = T;
    fn next(&mut self) -> Option<T> {
        self.rx.recv().ok()
    }
}

pub struct IntoIter<T> {
    rx: Receiver<T>,
}

impl<T> Iterator for IntoIter<T> {
    type Item = T;
    fn next(&mut self) -> Option<T> {
        self.rx.recv().ok()
    }
}

impl<T> IntoIterator for Receiver<T> {
    type Item = T;
    type IntoIter = IntoIter<T>;
    fn into_iter(self) -> IntoIter<T> {
        IntoIter { rx: self }
    }
}

impl<'a, T> IntoIterator for &'a Receiver<T> {
    type Item = T;
    type IntoIter = Iter<'a, T>;
    fn into_iter(self) -> Iter<'a, T> {
        self.iter()
    }
}

pub struct TryIter<'a, T> {
    rx: &'a Receiver<T>,
}

impl<'a, T> Iterator for TryIter<'a, T> {
    type Item = T;
    fn next(&mut self) -> Option<T> {
        self.rx.try_recv().ok()
    }
}
