//! Build-time instrumentation of the fst-bin sources that Engine B includes.
//!
//! The simulator can only pre-empt a task at operations of primitives it
//! owns. Threads come through the cfg-guarded seam in merge.rs and channels
//! through the dependency rename; everything else in `std::sync` that a
//! (future) version of the sources may use is mapped here, textually, to the
//! shuttle type of the same name, so that e.g. a load/store pair on an atomic
//! becomes two scheduling points. On the pinned tree this changes nothing:
//! the sources use `std::sync::Arc` only (which shuttle maps to std's Arc).

use std::env;
use std::fs;
use std::path::Path;

const SOURCES: [(&str, &str); 5] = [
    ("app.rs", "app.rs"),
    ("merge.rs", "merge.rs"),
    ("util.rs", "util.rs"),
    ("cmd/map.rs", "cmd_map.rs"),
    ("cmd/set.rs", "cmd_set.rs"),
];

/// Names in `std::sync` that have a scheduling-aware twin in `shuttle::sync`.
const SIMULATED: [&str; 8] =
    ["atomic", "Mutex", "MutexGuard", "RwLock", "Condvar", "Barrier", "Once", "mpsc"];

fn rewrite_use_group(line: &str) -> Option<String> {
    // `use std::sync::{A, B, atomic::{X, Y}};` on one line: split the group
    let t = line.trim_start();
    let indent = &line[..line.len() - t.len()];
    let rest = t.strip_prefix("use std::sync::{")?;
    let inner = rest.strip_suffix("};")?;
    // split at top-level commas
    let mut parts: Vec<String> = Vec::new();
    let mut depth = 0;
    let mut cur = String::new();
    for c in inner.chars() {
        match c {
            '{' => {
                depth += 1;
                cur.push(c)
            }
            '}' => {
                depth -= 1;
                cur.push(c)
            }
            ',' if depth == 0 => {
                parts.push(cur.trim().to_string());
                cur.clear();
            }
            _ => cur.push(c),
        }
    }
    if !cur.trim().is_empty() {
        parts.push(cur.trim().to_string());
    }
    let is_sim = |p: &str| {
        let head = p.split(|c: char| c == ':' || c == ' ').next().unwrap_or("");
        SIMULATED.contains(&head)
    };
    let sim: Vec<&String> = parts.iter().filter(|p| is_sim(p)).collect();
    let real: Vec<&String> = parts.iter().filter(|p| !is_sim(p)).collect();
    if sim.is_empty() {
        return None;
    }
    let mut out = String::new();
    if !real.is_empty() {
        out.push_str(&format!(
            "{}use std::sync::{{{}}};\n",
            indent,
            real.iter().map(|s| s.as_str()).collect::<Vec<_>>().join(", ")
        ));
    }
    out.push_str(&format!(
        "{}use shuttle::sync::{{{}}};",
        indent,
        sim.iter().map(|s| s.as_str()).collect::<Vec<_>>().join(", ")
    ));
    Some(out)
}

fn instrument(src: &str) -> String {
    let mut out = String::with_capacity(src.len() + 64);
    for line in src.lines() {
        let mut l = match rewrite_use_group(line) {
            Some(x) => x,
            None => line.to_string(),
        };
        for name in SIMULATED.iter() {
            l = l.replace(&format!("std::sync::{}", name), &format!("shuttle::sync::{}", name));
        }
        for f in ["spawn", "sleep", "yield_now", "park", "current", "Builder", "JoinHandle", "scope"] {
            l = l.replace(&format!("std::thread::{}", f), &format!("shuttle::thread::{}", f));
        }
        out.push_str(&l);
        out.push('\n');
    }
    out
}

fn main() {
    let out_dir = env::var("OUT_DIR").expect("OUT_DIR");
    let dst = Path::new(&out_dir).join("fstbin");
    fs::create_dir_all(&dst).expect("create OUT_DIR/fstbin");
    let mut changed = 0;
    for (rel, name) in SOURCES.iter() {
        let p = format!("/repo/fst-bin/src/{}", rel);
        println!("cargo:rerun-if-changed={}", p);
        let src = fs::read_to_string(&p).unwrap_or_else(|e| panic!("read {}: {}", p, e));
        let new = instrument(&src);
        if new.trim_end() != src.trim_end() {
            changed += 1;
        }
        fs::write(dst.join(name), new).expect("write instrumented source");
    }
    println!("cargo:rerun-if-changed=build.rs");
    println!("cargo:rustc-env=BINSIM_INSTRUMENTED_FILES={}", changed);
}
